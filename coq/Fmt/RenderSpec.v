(* Fmt/RenderSpec.v — what C10 / C11 say, with no code structure.
   C11: the output of a successful format call is the format string with "{{" and "}}" reduced
   to single braces, every other literal byte copied, and each {...} field replaced by the
   rendering of its argument; fields without &N take arguments left to right whatever &N fields
   do, &N is the N-th argument counting from 1.  An integer renders as sign, radix prefix (none
   for zero), digits (Num/Digits.v: digits_text, the representation without leading zeros);
   text is cut to the precision; the character class is the UTF-8 encoding of the code point
   (U+FFFD outside 0..10FFFF); every rendering is extended, never cut, to the minimum width.
   C10: a call either produces output or throws bad_format (malformed), out_of_range (argument
   not supplied), invalid_argument (null format), unicode_error (result not valid under the
   requested validation); the only process stop is the documented assertion for a padded
   character conversion.
   The numbers inside a field are read by the C library's strtol (Fmt/Strtol.v, trusted libc
   model); the property says nothing beyond that about signs/blanks/overflow inside a field. *)
From Coq Require Import NArith ZArith List Bool Lia.
From ST Require Import Base.Outcome Base.Units Num.Digits Fmt.Strtol Fmt.Parser Fmt.Render.
Import ListNotations.
Local Open Scope N_scope.

(* ---- one field ---- *)
Definition spec_pad_char (sp : format_spec) : N := if pad sp =? 0 then 32 else pad sp.
(* n copies of the pad character; none when n <= 0 *)
Definition fill (sp : format_spec) (n : Z) : list N := repeat (spec_pad_char sp) (Z.to_nat n).

Definition sign_text (neg plus : bool) : list N :=
  if neg then [45] else if plus then [43] else [].
Definition radix_prefix (dc : digit_class) : list N :=
  match dc with
  | DigitHex => [48; 120] | DigitHexUpper => [48; 88] | DigitBin => [48; 98] | DigitOct => [48]
  | _ => []
  end.
Definition radix_spec (dc : digit_class) : N :=
  match dc with DigitHex | DigitHexUpper => 16 | DigitOct => 8 | DigitBin => 2 | _ => 10 end.
Definition upper_spec (dc : digit_class) : bool :=
  match dc with DigitHexUpper => true | _ => false end.

(* integers: sign, prefix, digits; numbers are right-aligned by default; zero padding goes
   between sign/prefix and digits *)
Definition render_int (sp : format_spec) (v : Z) : list N :=
  let head := sign_text (v <? 0)%Z (always_signed sp)
              ++ (if (v =? 0)%Z || negb (class_prefix sp) then [] else radix_prefix (dclass sp)) in
  let digs := digits_text (Z.abs_N v) (radix_spec (dclass sp)) (upper_spec (dclass sp)) in
  let padding := fill sp (minimum_length sp - Z.of_nat (length head + length digs)) in
  if numeric_pad sp then head ++ padding ++ digs
  else match align sp with
       | AlignLeft => head ++ digs ++ padding
       | _ => padding ++ head ++ digs
       end.

(* UTF-8 (Unicode 3.9, table 3-6), by division *)
Definition utf8_enc (c : N) : list N :=
  if c <? 0x80 then [c]
  else if c <? 0x800 then [0xC0 + c / 64; 0x80 + c mod 64]
  else if c <? 0x10000 then [0xE0 + c / 4096; 0x80 + (c / 64) mod 64; 0x80 + c mod 64]
  else [0xF0 + c / 262144; 0x80 + (c / 4096) mod 64; 0x80 + (c / 64) mod 64; 0x80 + c mod 64].
Definition replacement_utf8 : list N := [0xEF; 0xBF; 0xBD].      (* U+FFFD *)

Definition render_char (v : Z) : list N :=
  if (0 <=? v)%Z && (v <=? 0x10FFFF)%Z then utf8_enc (Z.to_N v) else replacement_utf8.

(* text: cut to the precision, extended to the width, left-aligned by default *)
Definition render_text (sp : format_spec) (text : list N) : list N :=
  let body := if (0 <=? precision sp)%Z then firstn (Z.to_nat (precision sp)) text else text in
  let padding := fill sp (minimum_length sp - Z.of_nat (length body)) in
  match align sp with
  | AlignRight => padding ++ body
  | _ => body ++ padding
  end.

(* floating point: the C library's text, extended to the width, right-aligned by default *)
Definition render_float (sp : format_spec) (out : list N) : list N :=
  let padding := fill sp (minimum_length sp - Z.of_nat (length out)) in
  match align sp with
  | AlignLeft => out ++ padding
  | _ => padding ++ out
  end.

Inductive field_result :=
| FBytes (b : list N)
| FCharPad.                  (* the documented contract assertion: character class with width or pad *)

Definition is_char (sp : format_spec) : bool := match dclass sp with DigitChar => true | _ => false end.
Definition padded (sp : format_spec) : bool := negb (minimum_length sp =? 0)%Z || negb (pad sp =? 0).

Definition render_integral (sp : format_spec) (v : Z) : field_result :=
  if is_char sp then (if padded sp then FCharPad else FBytes (render_char v))
  else FBytes (render_int sp v).

Definition render_field (sp : format_spec) (a : arg) : field_result :=
  match a with
  | AInt _ _ v => render_integral sp v
  | AChar v => render_integral sp v
  | AWChar v => render_integral sp v
  | AChar32 v => render_integral sp (Z.of_N v)
  | ABool true => FBytes (render_text sp [116; 114; 117; 101])
  | ABool false => FBytes (render_text sp [102; 97; 108; 115; 101])
  | AStr s => FBytes (render_text sp s)
  | ANullStr => FBytes []
  | AFloat r => FBytes (render_float sp (r (always_signed sp) (precision sp) (fclass sp)))
  end.

(* ---- the format string as a sequence of literal bytes and fields ---- *)
Inductive item := ILit (c : N) | IField (sp : format_spec).

(* the decimal number at the head of l, as strtol reads it, and the rest of l *)
Definition number (l : list N) : option (Z * list N) :=
  match strtol10 (cstr l) 0 with
  | Ok (v, e) => Some (to_int v, skipn e l)
  | _ => None
  end.

(* the inside of a field, after '{' : flags up to the closing '}' ; None = malformed *)
Fixpoint field_spec (fuel : nat) (l : list N) (sp : format_spec) : option (format_spec * list N) :=
  match fuel with
  | O => None
  | S f =>
      match l with
      | [] => None                                               (* unterminated *)
      | c :: t =>
          if c =? 125 then Some (sp, t)                          (* '}' *)
          else if c =? 60 then field_spec f t (set_align sp AlignLeft)
          else if c =? 62 then field_spec f t (set_align sp AlignRight)
          else if c =? 95 then
            match t with
            | p :: t' => field_spec f t' (set_pad sp p false)    (* '_' pad character *)
            | [] => None
            end
          else if c =? 48 then field_spec f t (set_pad sp 48 true)
          else if c =? 35 then field_spec f t (set_class_prefix sp)
          else if c =? 120 then field_spec f t (set_dclass sp DigitHex)
          else if c =? 88 then field_spec f t (set_dclass sp DigitHexUpper)
          else if c =? 43 then field_spec f t (set_always_signed sp)
          else if c =? 100 then field_spec f t (set_dclass sp DigitDec)
          else if c =? 111 then field_spec f t (set_dclass sp DigitOct)
          else if c =? 98 then field_spec f t (set_dclass sp DigitBin)
          else if c =? 99 then field_spec f t (set_dclass sp DigitChar)
          else if c =? 102 then field_spec f t (set_fclass sp FloatFixed)
          else if c =? 101 then field_spec f t (set_fclass sp FloatExp)
          else if c =? 69 then field_spec f t (set_fclass sp FloatExpUpper)
          else if (49 <=? c) && (c <=? 57) then
            match number l with
            | Some (v, rest) => field_spec f rest (set_minimum_length sp v)
            | None => None
            end
          else if c =? 46 then
            match t with
            | [] => None
            | _ => match number t with
                   | Some (v, rest) => field_spec f rest (set_precision sp v)
                   | None => None
                   end
            end
          else if c =? 38 then
            match t with
            | [] => None
            | _ => match number t with
                   | Some (v, rest) => field_spec f rest (set_arg_index sp v)
                   | None => None
                   end
            end
          else None
      end
  end.

(* the literal text at the head of l with "{{" and "}}" reduced to single braces (a lone '}' is
   literal text), and what is left: nothing, or text starting with the '{' of a field *)
Fixpoint lit_prefix (l : list N) : list N * list N :=
  match l with
  | [] => ([], [])
  | c :: t =>
      if c =? 123 then
        match t with
        | c1 :: t1 => if c1 =? 123 then let '(b, r) := lit_prefix t1 in (123 :: b, r) else ([], l)
        | [] => ([], l)
        end
      else if c =? 125 then
        match t with
        | c1 :: t1 => if c1 =? 125 then let '(b, r) := lit_prefix t1 in (125 :: b, r)
                      else let '(b, r) := lit_prefix t in (125 :: b, r)
        | [] => ([125], [])
        end
      else let '(b, r) := lit_prefix t in (c :: b, r)
  end.

(* items up to the end (true) or up to the first malformed field (false); one unit of fuel per
   field, S (length l) is always enough *)
Fixpoint scan (fuel : nat) (l : list N) : list item * bool :=
  match fuel with
  | O => ([], false)
  | S f =>
      let '(b, r) := lit_prefix l in
      match r with
      | [] => (map ILit b, true)
      | _ :: t =>                                   (* the '{' of a field *)
          match field_spec (S (length t)) t default_spec with
          | Some (sp, rest) => let '(its, ok) := scan f rest in (map ILit b ++ IField sp :: its, ok)
          | None => (map ILit b, false)
          end
      end
  end.

(* ---- putting arguments into fields ---- *)
Record assigned := mk_assigned {
  out_bytes : list N;        (* rendering, meaningful when nothing below is set *)
  short : bool;              (* some field names an argument that was not supplied *)
  char_pad : bool            (* some field with a supplied argument is a padded character conversion *)
}.

(* seq = number of fields without &N seen so far *)
Fixpoint assign (its : list item) (args : list arg) (seq : nat) : assigned :=
  match its with
  | [] => mk_assigned [] false false
  | ILit c :: t => let r := assign t args seq in mk_assigned (c :: out_bytes r) (short r) (char_pad r)
  | IField sp :: t =>
      let explicit := (0 <=? arg_index sp)%Z in
      let seq' := if explicit then seq else S seq in
      let r := assign t args seq' in
      let which : option nat :=
        if explicit then
          (if (arg_index sp =? 0)%Z || (Z.of_nat (length args) <? arg_index sp)%Z then None    (* &N: 1 <= N <= #args *)
           else Some (Z.to_nat (arg_index sp - 1)))
        else Some seq in
      match which with
      | None => mk_assigned [] true (char_pad r)
      | Some k =>
          match nth_error args k with
          | None => mk_assigned [] true (char_pad r)
          | Some a =>
              match render_field sp a with
              | FBytes b => mk_assigned (b ++ out_bytes r) (short r) (char_pad r)
              | FCharPad => mk_assigned [] (short r) true
              end
          end
      end
  end.

(* what the property allows for one call *)
Inductive verdict :=
| VNull                                  (* null format: invalid_argument *)
| VBytes (b : list N)                    (* must succeed with exactly these raw bytes (before validation) *)
| VFail (bad_format out_of_range char_pad : bool).   (* must NOT succeed; which failures are permitted *)

Definition count_seq (its : list item) : nat :=
  length (filter (fun i => match i with IField sp => (arg_index sp <? 0)%Z | _ => false end) its).

Definition spec_format (fmt : option (list N)) (args : list arg) : verdict :=
  match fmt with
  | None => VNull
  | Some f =>
      let '(its, wf) := scan (S (length f)) f in
      let r := assign its args 0 in
      (* a malformed field would itself have needed an argument: with none left it is also "short" *)
      let short_at_bad := negb wf && Nat.leb (length args) (count_seq its) in
      if wf && negb (short r) && negb (char_pad r) then VBytes (out_bytes r)
      else VFail (negb wf) (short r || short_at_bad) (char_pad r)
  end.
