(* Fmt/ParseSpecProofs.v — C11, scanning: the transcribed specifier parser (index based, with
   its lookaheads and strtol calls on the C array) reads a field exactly as the list-based
   RenderSpec.field_spec does: same format_spec, and it stops at the offset where the
   specification's remaining text starts; malformed for the one iff bad_format for the other. *)
From Coq Require Import NArith ZArith List Bool Lia ZifyBool ZifyNat ZifyN.
From ST Require Import Base.Outcome Base.Units Fmt.Strtol Fmt.StrtolProofs Fmt.ShiftProofs Fmt.Parser
  Fmt.ParserProofs Fmt.Render Fmt.RenderSpec.
Import ListNotations.
Local Open Scope N_scope.

Lemma skipn_add : forall k e (l : list N), skipn e (skipn k l) = skipn (k + e) l.
Proof.
  induction k as [|k IH]; intros e l; [reflexivity|].
  destruct l as [|x l]; [destruct e; reflexivity|]. cbn [skipn Nat.add]. apply IH.
Qed.

Lemma in_skipn : forall k (l : list N) c t, skipn k l = c :: t -> In c l.
Proof.
  induction k as [|k IH]; intros l c t H.
  - simpl in H. subst l. left. reflexivity.
  - destruct l as [|x l]; [discriminate|]. right. apply (IH l c t). exact H.
Qed.

Section Fmt.
Variable fmt : list N.
Hypothesis Hnz : Forall (fun b => b <> 0) fmt.     (* a C string has no interior NUL *)
Let a := cstr fmt.
Let len := length fmt.

Lemma suffix_nonzero k c t : skipn k fmt = c :: t -> c <> 0.
Proof. intros H. rewrite Forall_forall in Hnz. apply Hnz. exact (in_skipn k fmt c t H). Qed.

(* the specification's reading of a number: always defined *)
Lemma number_defined (l : list N) : exists v e, strtol10 (cstr l) 0 = Ok (v, e) /\ (e <= length l)%nat
  /\ number l = Some (to_int v, skipn e l).
Proof.
  destruct (strtol10_ok l 0) as [v [e [H He]]]; [lia|].
  exists v, e. split; [exact H|]. split; [lia|]. unfold number. rewrite H. reflexivity.
Qed.

Definition agree_parse (o : option (format_spec * list N)) (r : outcome (format_spec * nat)) : Prop :=
  match o with
  | Some (sp', rest) => exists k, (k <= len)%nat /\ rest = skipn k fmt /\ r = Ok (sp', k)
  | None => r = Throw BadFormat
  end.

Ltac both_if E :=
  match goal with
  | |- agree_parse (if ?b then _ else _) _ => destruct b eqn:E
  end.

Lemma parse_vs_spec fs : forall m sp fuel,
  (m < len)%nat -> (length (skipn (S m) fmt) < fs)%nat -> (len - m <= fuel)%nat ->
  agree_parse (field_spec fs (skipn (S m) fmt) sp) (parse_loop fuel a m sp).
Proof.
  induction fs as [|f IH]; intros m sp fuel Hm Hfs Hfuel; [lia|].
  destruct fuel as [|fl]; [lia|].
  cbn [field_spec parse_loop].
  pose proof (at_suffix_head fmt (S m) ltac:(fold len; lia)) as Hat. fold a in Hat. rewrite Hat.
  destruct (skipn (S m) fmt) as [|c t] eqn:El; cbn [bind].
  { (* end of the string inside a field *) reflexivity. }
  pose proof (suffix_nonzero (S m) c t El) as Hc.
  pose proof (skipn_cons_nth (S m) fmt c t El) as Et.
  pose proof (skipn_length_le fmt (S m) c t El) as Hlt. fold len in Hlt.
  assert (E0 : c =? 0 = false) by lia. rewrite E0.
  simpl length in Hfs.
  (* a flag: both continue one byte further *)
  assert (Hflag : forall sp', agree_parse (field_spec f t sp') (parse_loop fl a (S m) sp')).
  { intros sp'. rewrite <- Et. apply IH; [lia|rewrite Et; lia|lia]. }
  both_if E1. { exists (S (S m)). split; [lia|]. split; [symmetry; exact Et|reflexivity]. }
  both_if E2; [apply Hflag|].
  both_if E3; [apply Hflag|].
  both_if E4.
  { (* '_' : the byte after it is the pad character *)
    pose proof (at_suffix_head fmt (S (S m)) ltac:(fold len; lia)) as Hat2. fold a in Hat2. rewrite Hat2, Et.
    destruct t as [|p t'] eqn:Et2; cbn [bind]; [reflexivity|].
    pose proof (suffix_nonzero (S (S m)) p t' Et) as Hp.
    assert (Ep : p =? 0 = false) by lia. rewrite Ep.
    pose proof (skipn_cons_nth (S (S m)) fmt p t' Et) as Et'.
    pose proof (skipn_length_le fmt (S (S m)) p t' Et) as Hlt2. fold len in Hlt2.
    rewrite <- Et'. apply IH; [lia|rewrite Et'; simpl length in Hfs; lia|lia]. }
  both_if E5; [apply Hflag|].
  both_if E6; [apply Hflag|].
  both_if E7; [apply Hflag|].
  both_if E8; [apply Hflag|].
  both_if E9; [apply Hflag|].
  both_if E10; [apply Hflag|].
  both_if E11; [apply Hflag|].
  both_if E12; [apply Hflag|].
  both_if E13; [apply Hflag|].
  both_if E14; [apply Hflag|].
  both_if E15; [apply Hflag|].
  both_if E16; [apply Hflag|].
  both_if E17.
  { (* width: strtol from this digit *)
    destruct (number_defined (c :: t)) as [v [e [Hs [He Hn]]]]. rewrite Hn.
    assert (Hd : isdigit c = true) by (unfold isdigit; lia).
    destruct (strtol10_digit (c :: t) 0 c (at_cons c t) Hd) as [v2 [e2 [Hs2 He2]]].
    rewrite Hs in Hs2. inversion Hs2. subst v2 e2. clear Hs2.
    rewrite <- El in Hs.
    pose proof (strtol10_suffix fmt (S m) v e ltac:(fold len; lia) Hs) as Hst. fold a in Hst.
    rewrite Hst. cbn [bind]. cbn [Nat.add].
    assert (Esk : skipn e (c :: t) = skipn (S (m + e)) fmt).
    { rewrite <- El. rewrite skipn_add. reflexivity. }
    rewrite Esk. simpl length in He, He2.
    assert (Hlen : length t = (len - S (S m))%nat).
    { rewrite <- Et. rewrite skipn_length. reflexivity. }
    apply IH; [lia| |lia].
    rewrite <- Esk. rewrite skipn_length. simpl length. lia. }
  (* '.' and '&' *)
  assert (Hnum : forall setter : format_spec -> Z -> format_spec,
    agree_parse
      (match t with
       | [] => None
       | _ :: _ => match number t with
                   | Some (v, rest) => field_spec f rest (setter sp v)
                   | None => None
                   end
       end)
      (bind (at_ a (S (S m))) (fun c2 =>
         if c2 =? 0 then Throw BadFormat
         else bind (strtol10 a (S (S m))) (fun x => let '(v, e) := x in
                match e with
                | O => Fault UBOther
                | S e' => parse_loop fl a e' (setter sp (to_int v))
                end)))).
  { intros setter.
    pose proof (at_suffix_head fmt (S (S m)) ltac:(fold len; lia)) as Hat2. fold a in Hat2. rewrite Hat2, Et.
    destruct t as [|c2 t2] eqn:Et2; cbn [bind]; [reflexivity|].
    pose proof (suffix_nonzero (S (S m)) c2 t2 Et) as Hc2.
    assert (Ec2 : c2 =? 0 = false) by lia. rewrite Ec2.
    destruct (number_defined (c2 :: t2)) as [v [e [Hs [He Hn]]]]. rewrite Hn.
    rewrite <- Et in Hs.
    pose proof (strtol10_suffix fmt (S (S m)) v e ltac:(fold len; lia) Hs) as Hst. fold a in Hst.
    rewrite Hst. cbn [bind]. cbn [Nat.add].
    assert (Esk : skipn e (c2 :: t2) = skipn (S (S (m + e))) fmt).
    { rewrite <- Et. rewrite skipn_add. reflexivity. }
    rewrite Esk.
    assert (Hlen : length (c2 :: t2) = (len - S (S m))%nat).
    { rewrite <- Et. rewrite skipn_length. reflexivity. }
    apply IH; [lia| |lia].
    rewrite <- Esk. rewrite skipn_length. simpl length in *. lia. }
  both_if E18; [apply (Hnum set_precision)|].
  both_if E19; [apply (Hnum set_arg_index)|].
  reflexivity.
Qed.

(* parse_format from the '{' at offset m against field_spec on the text after it *)
Theorem parse_format_vs_spec m t : skipn m fmt = 123 :: t ->
  agree_parse (field_spec (S (length t)) t default_spec) (parse_format a m).
Proof.
  intros H. pose proof (skipn_length_le fmt m 123 t H) as Hlt. fold len in Hlt.
  pose proof (skipn_cons_nth m fmt 123 t H) as Et.
  unfold parse_format.
  pose proof (at_suffix_head fmt m ltac:(fold len; lia)) as Hat. fold a in Hat. rewrite Hat, H. cbn [bind].
  change (negb (123 =? 123)) with false. cbv iota.
  rewrite <- Et. apply parse_vs_spec; [exact Hlt|rewrite Et; lia|].
  pose proof (cstr_length fmt) as L. fold a in L. fold len in L. lia.
Qed.

End Fmt.
