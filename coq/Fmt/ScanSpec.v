(* TEMPORARY (being merged into RenderSpec.v): the format string as literal runs and fields *)
From Coq Require Import NArith ZArith List Bool Lia.
From ST Require Import Base.Outcome Base.Units Num.Digits Fmt.Strtol Fmt.Parser Fmt.Render Fmt.RenderSpec.
Import ListNotations.
Local Open Scope N_scope.

(* the literal text at the head of l with "{{" and "}}" reduced to single braces (a lone '}' is
   literal text), and what is left: nothing, or text starting with the '{' of a field *)
Fixpoint lit_prefix (l : list N) : list N * list N :=
  match l with
  | [] => ([], [])
  | c :: t =>
      if c =? 123 then
        match t with
        | c1 :: t1 => if c1 =? 123 then let '(b, r) := lit_prefix t1 in (123 :: b, r) else ([], l)
        | [] => ([], l)
        end
      else if c =? 125 then
        match t with
        | c1 :: t1 => if c1 =? 125 then let '(b, r) := lit_prefix t1 in (125 :: b, r)
                      else let '(b, r) := lit_prefix t in (125 :: b, r)
        | [] => ([125], [])
        end
      else let '(b, r) := lit_prefix t in (c :: b, r)
  end.

(* items up to the end (true) or up to the first malformed field (false) *)
Fixpoint scan2 (fuel : nat) (l : list N) : list item * bool :=
  match fuel with
  | O => ([], false)
  | S f =>
      let '(b, r) := lit_prefix l in
      match r with
      | [] => (map ILit b, true)
      | _ :: t =>                                   (* the '{' of a field *)
          match field_spec (S (length t)) t default_spec with
          | Some (sp, rest) => let '(its, ok) := scan2 f rest in (map ILit b ++ IField sp :: its, ok)
          | None => (map ILit b, false)
          end
      end
  end.

Definition spec_format2 (fmt : option (list N)) (args : list arg) : verdict :=
  match fmt with
  | None => VNull
  | Some f =>
      let '(its, wf) := scan2 (S (length f)) f in
      let r := assign its args 0 in
      let short_at_bad := negb wf && Nat.leb (length args) (count_seq its) in
      if wf && negb (short r) && negb (char_pad r) then VBytes (out_bytes r)
      else VFail (negb wf) (short r || short_at_bad) (char_pad r)
  end.
