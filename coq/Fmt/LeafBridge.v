(* Fmt/LeafBridge.v — pad_size of Fmt/Render.v computes what the function found in the CURRENT headers computes
   (Gen/Leaf.v, regenerated from the clang AST on every run: a record parameter read field by field, a local updated by
   `--`, by a switch over the digit class and by compound assignment), for every format_spec whose minimum length is an
   `int`, every size below 2^62 and every numeric type.  The codes of the digit classes and numeric types are the
   values the compiler gives the named constants (the ext_ definitions), so a renumbering upstream is followed, not assumed away. *)
From Coq Require Import NArith ZArith Bool Lia ZifyBool.
From ST Require Import Base.Outcome Base.Units Fmt.Strtol Fmt.Parser Fmt.Render Gen.Leaf.
Local Open Scope Z_scope.
Ltac Zify.zify_post_hook ::= Z.div_mod_to_equations.

Definition dcode (d : digit_class) : Z :=
  match d with
  | DigitDefault => ext_digit_default | DigitDec => ext_digit_dec | DigitHex => ext_digit_hex
  | DigitHexUpper => ext_digit_hex_upper | DigitOct => ext_digit_oct | DigitBin => ext_digit_bin
  | DigitChar => ext_digit_char
  end.
Definition ncode (n : numeric_type) : Z :=
  match n with NumPositive => ext_numeric_positive | NumNegative => ext_numeric_negative | NumZero => ext_numeric_zero end.

(* the codes are pairwise different (checked by computation on the values harvested on this run) *)
Lemma dcode_inj : forall a b, dcode a = dcode b -> a = b.
Proof. intros a b; destruct a, b; vm_compute; intros H; try reflexivity; discriminate. Qed.
Lemma ncode_inj : forall a b, ncode a = ncode b -> a = b.
Proof. intros a b; destruct a, b; vm_compute; intros H; try reflexivity; discriminate. Qed.

Lemma wraps64_id x : - 2 ^ 63 <= x < 2 ^ 63 -> wraps 64 x = x.
Proof. intros H. unfold wraps. change (64 - 1) with 63. rewrite Z.mod_small by lia. lia. Qed.
Lemma wraps32_id x : - 2 ^ 31 <= x < 2 ^ 31 -> wraps 32 x = x.
Proof. intros H. unfold wraps. change (32 - 1) with 31. rewrite Z.mod_small by lia. lia. Qed.
Lemma wrapu64_id x : 0 <= x < 2 ^ 64 -> wrapu 64 x = x.
Proof. intros H. unfold wrapu. apply Z.mod_small. exact H. Qed.
Lemma wraps64_is_wrap_ssize x : wraps 64 x = wrap_ssize x.
Proof. reflexivity. Qed.
Lemma wraps64_wrapu64 x : wraps 64 (wrapu 64 x) = wraps 64 x.
Proof.
  unfold wraps, wrapu. change (64 - 1) with 63.
  rewrite Zplus_mod_idemp_l. reflexivity.
Qed.

Lemma is_negative nt : Z.eqb (ncode nt) ext_numeric_negative = match nt with NumNegative => true | _ => false end.
Proof. destruct nt; reflexivity. Qed.
Lemma is_zero nt : Z.eqb (ncode nt) ext_numeric_zero = match nt with NumZero => true | _ => false end.
Proof. destruct nt; reflexivity. Qed.
Lemma switch_digit_class {A} d (a b c : A) :
  (if Z.eqb (dcode d) ext_digit_hex || Z.eqb (dcode d) ext_digit_hex_upper || Z.eqb (dcode d) ext_digit_bin then a
   else if Z.eqb (dcode d) ext_digit_oct then b else c)
  = match d with DigitHex | DigitHexUpper | DigitBin => a | DigitOct => b | _ => c end.
Proof. destruct d; reflexivity. Qed.

Lemma final_clip x : - 2 ^ 63 <= x < 2 ^ 63 ->
  (if negb ((if x >? wraps 64 0 then 1 else 0) =? 0) then wrapu 64 x else wrapu 64 0) = Z.of_N (if 0 <? x then Z.to_N x else 0%N).
Proof.
  intros H. rewrite (wraps64_id 0) by lia.
  destruct (Z.ltb_spec 0 x) as [Hpos|Hneg].
  - replace (x >? 0) with true by (symmetry; apply Z.gtb_lt; lia). cbn [negb Z.eqb].
    rewrite wrapu64_id by lia. rewrite Z2N.id by lia. reflexivity.
  - replace (x >? 0) with false by (symmetry; rewrite Z.gtb_ltb; apply Z.ltb_ge; lia). cbn [negb Z.eqb].
    rewrite wrapu64_id by lia. reflexivity.
Qed.

Theorem pad_size_matches_source spec size nt :
  - 2 ^ 31 <= minimum_length spec < 2 ^ 31 -> Z.of_N size < 2 ^ 62 ->
  src_pad_size (minimum_length spec) (b2z (always_signed spec)) (b2z (class_prefix spec)) (dcode (dclass spec))
               (Z.of_N size) (ncode nt)
  = Z.of_N (pad_size spec size nt).
Proof.
  intros Hm Hs. unfold src_pad_size, pad_size, prefix_len.
  set (m := minimum_length spec) in *. set (sz := Z.of_N size) in *.
  assert (Hsz : 0 <= sz) by (unfold sz; lia).
  assert (E1 : wraps 64 (wrapu 64 (wrapu 64 m - sz)) = m - sz).
  { unfold wraps, wrapu. change (64 - 1) with 63. lia. }
  rewrite E1.
  assert (E1' : wrap_ssize (m - sz) = m - sz) by (unfold wrap_ssize; lia).
  rewrite E1'.
  set (p0 := m - sz) in *.
  assert (Hp0 : - 2 ^ 62 - 2 ^ 31 <= p0 < 2 ^ 31) by (unfold p0; lia).
  rewrite !(wraps32_id (ncode nt)) by (destruct nt; vm_compute; (split; [discriminate|reflexivity])).
  rewrite (wraps32_id ext_numeric_negative), (wraps32_id ext_numeric_zero) by (vm_compute; (split; [discriminate|reflexivity])).
  rewrite is_negative, is_zero, switch_digit_class.
  clear E1 E1'. clearbody p0.
  rewrite (wraps64_id 2), (wraps64_id 1) by lia.
  unfold z2b, b2z.
  destruct nt; destruct (always_signed spec); destruct (class_prefix spec); destruct (dclass spec);
    cbn [negb orb andb Z.eqb];
    repeat first [ rewrite (wraps64_id p0) by lia | rewrite (wraps64_id (p0 - 1)) by lia | rewrite (wraps64_id (p0 - 2)) by lia
                 | rewrite (wraps64_id (p0 - 1 - 2)) by lia | rewrite (wraps64_id (p0 - 1 - 1)) by lia ];
    rewrite ?Z.sub_0_r;
    (rewrite final_clip by lia); reflexivity.
Qed.
