(* Fmt/Sinks.v — the writers the driver of Fmt/Render.v plugs into, each an interpretation of
   the event sequence (append / append_char calls):
     string sink   include/st_format.h  string_format_writer: accumulate, then
                   to_string(utf8, validation) = string::from_utf8 / from_latin_1
     FILE* sink    include/st_stdio.h   fwrite; loop of fputc
     ostream sinks include/st_iostream.h  write / loop of put(char_T(ch));
                   wchar_t/char16_t/char32_t: every append chunk goes ALONE through
                   utf8_to_{wchar,utf16,utf32} with the default validation (check_validity)
   plus the UTF-8 validators/transcoders those finalisers use, transcribed functionally from
   include/st_utf_conv_priv.h (their own memory safety is C03's subject, not repeated here)
   and stream insertion / extraction of ST::string.
   MODEL ONLY (no proofs here).                                                          *)
From Coq Require Import NArith ZArith List Bool Lia.
From ST Require Import Base.Outcome Base.Units Fmt.Strtol Fmt.Parser Fmt.Render.
Import ListNotations.
Local Open Scope N_scope.
Local Open Scope outcome_scope.

Definition huge_buffer_size : N := 0x10000000.          (* ST_HUGE_BUFFER_SIZE *)

Inductive validation := CheckValidity | SubstituteInvalid | AssumeValid.

(* ---- st_utf_conv_priv.h, functional transcriptions ---- *)
Definition is_cont (c : N) : bool := N.land c 0xC0 =? 0x80.
Definition lead2 (c : N) : bool := N.land c 0xE0 =? 0xC0.
Definition lead3 (c : N) : bool := N.land c 0xF0 =? 0xE0.
Definition lead4 (c : N) : bool := N.land c 0xF8 =? 0xF0.

(* validate_utf8 == success *)
Fixpoint validate_utf8 (l : list N) : bool :=
  match l with
  | [] => true
  | c :: t =>
      if c <? 0x80 then validate_utf8 t
      else if lead2 c then
        match t with
        | c1 :: t1 => is_cont c1 && validate_utf8 t1
        | _ => false
        end
      else if lead3 c then
        match t with
        | c1 :: c2 :: t2 => is_cont c1 && is_cont c2 && validate_utf8 t2
        | _ => false
        end
      else if lead4 c then
        match t with
        | c1 :: c2 :: c3 :: t3 => is_cont c1 && is_cont c2 && is_cont c3 && validate_utf8 t3
        | _ => false
        end
      else false
  end.

(* cleanup_utf8: every byte that does not start a complete sequence becomes U+FFFD *)
Fixpoint cleanup_utf8 (l : list N) : list N :=
  match l with
  | [] => []
  | c :: t =>
      if c <? 0x80 then c :: cleanup_utf8 t
      else if lead2 c then
        match t with
        | c1 :: t1 => if is_cont c1 then c :: c1 :: cleanup_utf8 t1 else badchar_utf8 ++ cleanup_utf8 t
        | _ => badchar_utf8 ++ cleanup_utf8 t
        end
      else if lead3 c then
        match t with
        | c1 :: c2 :: t2 => if is_cont c1 && is_cont c2 then c :: c1 :: c2 :: cleanup_utf8 t2
                            else badchar_utf8 ++ cleanup_utf8 t
        | _ => badchar_utf8 ++ cleanup_utf8 t
        end
      else if lead4 c then
        match t with
        | c1 :: c2 :: c3 :: t3 => if is_cont c1 && is_cont c2 && is_cont c3 then c :: c1 :: c2 :: c3 :: cleanup_utf8 t3
                                  else badchar_utf8 ++ cleanup_utf8 t
        | _ => badchar_utf8 ++ cleanup_utf8 t
        end
      else badchar_utf8 ++ cleanup_utf8 t
  end.

(* extract_utf8 over a whole buffer under check_validity: None = some extract reported an error *)
Fixpoint decode_utf8 (l : list N) : option (list N) :=
  match l with
  | [] => Some []
  | c :: t =>
      if c <? 0x80 then option_map (cons c) (decode_utf8 t)
      else if lead2 c then
        match t with
        | c1 :: t1 =>
            if is_cont c1 then
              option_map (cons (N.lor (N.shiftl (N.land c 0x1F) 6) (N.land c1 0x3F))) (decode_utf8 t1)
            else None
        | _ => None
        end
      else if lead3 c then
        match t with
        | c1 :: c2 :: t2 =>
            if is_cont c1 && is_cont c2 then
              option_map (cons (N.lor (N.lor (N.shiftl (N.land c 0x0F) 12) (N.shiftl (N.land c1 0x3F) 6)) (N.land c2 0x3F)))
                         (decode_utf8 t2)
            else None
        | _ => None
        end
      else if lead4 c then
        match t with
        | c1 :: c2 :: c3 :: t3 =>
            if is_cont c1 && is_cont c2 && is_cont c3 then
              option_map (cons (N.lor (N.lor (N.lor (N.shiftl (N.land c 0x07) 18) (N.shiftl (N.land c1 0x3F) 12))
                                              (N.shiftl (N.land c2 0x3F) 6)) (N.land c3 0x3F)))
                         (decode_utf8 t3)
            else None
        | _ => None
        end
      else None
  end.

(* write_utf16; None = out_of_range (REPAIRED: reported like a decode error instead of ST_ASSERT) *)
Definition write_utf16 (ch : N) : option (list N) :=
  if ch <? 0x10000 then Some [ch]
  else if ch <=? 0x10FFFF then
    let c := ch - 0x10000 in
    Some [N.lor 0xD800 (N.land (N.shiftr c 10) 0x3FF); N.lor 0xDC00 (N.land c 0x3FF)]
  else None.

Fixpoint encode_utf16 (l : list N) : option (list N) :=
  match l with
  | [] => Some []
  | ch :: t =>
      match write_utf16 ch, encode_utf16 t with
      | Some u, Some r => Some (u ++ r)
      | _, _ => None
      end
  end.

(* ST::utf8_to_utf32 / utf8_to_wchar (32-bit wchar_t) with check_validity *)
Definition utf8_to_utf32_check (chunk : list N) : outcome (list N) :=
  if huge_buffer_size <=? N.of_nat (length chunk) then Abort AbHuge
  else match decode_utf8 chunk with Some u => Ok u | None => Throw UnicodeError end.

(* ST::utf8_to_utf16 with check_validity *)
Definition utf8_to_utf16_check (chunk : list N) : outcome (list N) :=
  if huge_buffer_size <=? N.of_nat (length chunk) then Abort AbHuge
  else match decode_utf8 chunk with
       | Some u => match encode_utf16 u with Some r => Ok r | None => Throw UnicodeError end
       | None => Throw UnicodeError
       end.

(* latin_1_to_utf8 *)
Definition latin1_byte (c : N) : list N :=
  if N.land c 0x80 =? 0 then [c]
  else [N.lor 0xC0 (N.land (N.shiftr c 6) 0x1F); N.lor 0x80 (N.land c 0x3F)].
Definition latin_1_to_utf8 (raw : list N) : outcome (list N) :=
  if huge_buffer_size <=? N.of_nat (length raw) then Abort AbHuge
  else Ok (flat_map latin1_byte raw).

(* string::from_utf8(raw, size, validation) -> _set_utf8 -> set(char_buffer, validation) *)
Definition from_utf8 (v : validation) (raw : list N) : outcome (list N) :=
  if huge_buffer_size <=? N.of_nat (length raw) then Abort AbHuge
  else match v with
       | CheckValidity => if validate_utf8 raw then Ok raw else Throw UnicodeError
       | SubstituteInvalid => Ok (cleanup_utf8 raw)
       | AssumeValid => Ok raw
       end.

(* ---- the narrow writers ---- *)
(* a loop `while (count) { put one byte; --count; }` *)
Definition put_loop (acc : list N) (ch : N) (count : N) : list N :=
  N.iter count (fun a => a ++ [ch]) acc.

(* string_stream::append / append_char (char_traits::assign(count, ch)) *)
Definition string_step (acc : list N) (e : event) : outcome (list N) :=
  match e with
  | EApp d => Ok (acc ++ d)
  | EPad ch count => Ok (acc ++ repeat ch (N.to_nat count))
  end.
(* fwrite(data, 1, size, f) / while (count) fputc(ch, f) *)
Definition file_step (acc : list N) (e : event) : outcome (list N) :=
  match e with
  | EApp d => Ok (acc ++ d)
  | EPad ch count => Ok (put_loop acc ch count)
  end.
(* m_stream.write(data, size) / while (count) m_stream.put(char(ch)) *)
Definition ostream_step (acc : list N) (e : event) : outcome (list N) :=
  match e with
  | EApp d => Ok (acc ++ d)
  | EPad ch count => Ok (put_loop acc ch count)
  end.

(* ---- the wide writers ---- *)
Inductive wide := WWchar | WChar16 | WChar32.
(* char_T(ch): ch is a (signed) char *)
Definition widen_char (w : wide) (ch : N) : N :=
  if ch <? 128 then ch
  else match w with
       | WChar16 => 0xFF00 + ch
       | WWchar | WChar32 => 0xFFFFFF00 + ch
       end.
Definition wide_chunk (w : wide) (d : list N) : outcome (list N) :=
  match w with
  | WChar16 => utf8_to_utf16_check d
  | WWchar | WChar32 => utf8_to_utf32_check d
  end.
Definition wide_step (w : wide) (acc : list N) (e : event) : outcome (list N) :=
  match e with
  | EApp d => u <- wide_chunk w d ;; Ok (acc ++ u)
  | EPad ch count => Ok (put_loop acc (widen_char w ch) count)
  end.

(* ---- running a writer over the driver's calls ----
   result: what reached the stream, and how the call ended *)
Fixpoint feed (step : list N -> event -> outcome (list N)) (acc : list N) (t : list event) : list N * outcome unit :=
  match t with
  | [] => (acc, Ok tt)
  | e :: t' =>
      match step acc e with
      | Ok acc' => feed step acc' t'
      | Throw x => (acc, Throw x)
      | Abort w => (acc, Abort w)
      | Fault f => (acc, Fault f)
      end
  end.

(* the writer fails at the call where it fails; otherwise the driver's own ending stands *)
Definition run_writer (step : list N -> event -> outcome (list N)) (r : W unit) : list N * outcome unit :=
  let '(t, fin) := r in
  match feed step [] t with
  | (acc, Ok _) => (acc, fin)
  | other => other
  end.

Inductive stream := StFile | StOstream | StWide (w : wide).
Definition stream_step (s : stream) :=
  match s with
  | StFile => file_step
  | StOstream => ostream_step
  | StWide w => wide_step w
  end.

(* ST::printf(FILE*, fmt, args...) / ST::writef(stream, fmt, args...) *)
Definition format_to_stream (s : stream) (fmt : option (list N)) (args : list arg) : list N * outcome unit :=
  run_writer (stream_step s) (driver fmt args).

(* ST::format(validation, fmt, args...) ; ST::format(fmt, args...) is validation = ST_DEFAULT_VALIDATION = check_validity *)
Definition format_to_string (v : validation) (fmt : option (list N)) (args : list arg) : outcome (list N) :=
  match run_writer string_step (driver fmt args) with
  | (raw, Ok _) => from_utf8 v raw
  | (_, Throw x) => Throw x
  | (_, Abort w) => Abort w
  | (_, Fault f) => Fault f
  end.

(* ST::format_latin_1 *)
Definition format_to_latin1 (fmt : option (list N)) (args : list arg) : outcome (list N) :=
  match run_writer string_step (driver fmt args) with
  | (raw, Ok _) => latin_1_to_utf8 raw
  | (_, Throw x) => Throw x
  | (_, Abort w) => Abort w
  | (_, Fault f) => Fault f
  end.

(* ---- stream insertion: os << s  (to_buffer + basic_string) ----
   to_utf16/to_utf32/to_wchar convert with assume_valid: a malformed byte becomes one U+FFFD unit *)
Fixpoint decode_utf8_lax (l : list N) : list N :=
  match l with
  | [] => []
  | c :: t =>
      if c <? 0x80 then c :: decode_utf8_lax t
      else if lead2 c then
        match t with
        | c1 :: t1 => if is_cont c1 then N.lor (N.shiftl (N.land c 0x1F) 6) (N.land c1 0x3F) :: decode_utf8_lax t1
                      else 0xFFFD :: decode_utf8_lax t
        | _ => 0xFFFD :: decode_utf8_lax t
        end
      else if lead3 c then
        match t with
        | c1 :: c2 :: t2 =>
            if is_cont c1 && is_cont c2 then
              N.lor (N.lor (N.shiftl (N.land c 0x0F) 12) (N.shiftl (N.land c1 0x3F) 6)) (N.land c2 0x3F) :: decode_utf8_lax t2
            else 0xFFFD :: decode_utf8_lax t
        | _ => 0xFFFD :: decode_utf8_lax t
        end
      else if lead4 c then
        match t with
        | c1 :: c2 :: c3 :: t3 =>
            if is_cont c1 && is_cont c2 && is_cont c3 then
              N.lor (N.lor (N.lor (N.shiftl (N.land c 0x07) 18) (N.shiftl (N.land c1 0x3F) 12))
                           (N.shiftl (N.land c2 0x3F) 6)) (N.land c3 0x3F) :: decode_utf8_lax t3
            else 0xFFFD :: decode_utf8_lax t
        | _ => 0xFFFD :: decode_utf8_lax t
        end
      else 0xFFFD :: decode_utf8_lax t
  end.

Definition utf16_unit_lax (ch : N) : list N :=
  match write_utf16 ch with Some u => u | None => [0xFFFD] end.

Inductive char_type := CtChar | CtWchar | CtChar16 | CtChar32.

(* operator<<(basic_ostream<char_T>&, const ST::string&): the units written *)
Definition insert_units (ct : char_type) (s : list N) : list N :=
  match ct with
  | CtChar => s
  | CtWchar | CtChar32 => decode_utf8_lax s
  | CtChar16 => flat_map utf16_unit_lax (decode_utf8_lax s)
  end.

(* ---- stream extraction: is >> s ----
     std::basic_string<char_T> stl_string;  stream >> stl_string;
     str.set(stl_string.c_str(), stl_string.size());          (default validation)
   The tokenisation is libstdc++'s (an oracle; the harness prints the token it took): in the
   "C" locale it skips and stops at ' ' \t \n \v \f \r for char and wchar_t; char16_t / char32_t
   streams have no ctype facet, the sentry fails and the token is empty. *)
Fixpoint skip_ws (l : list N) : list N :=
  match l with
  | c :: t => if isspace c then skip_ws t else l
  | [] => []
  end.
Fixpoint take_token (l : list N) : list N :=
  match l with
  | c :: t => if isspace c then [] else c :: take_token t
  | [] => []
  end.
Definition extract_token (ct : char_type) (l : list N) : list N :=
  match ct with
  | CtChar | CtWchar => take_token (skip_ws l)
  | CtChar16 | CtChar32 => []
  end.

(* utf32_to_utf8 / wchar_to_utf8 (32-bit wchar_t) with check_validity *)
Fixpoint utf32_to_utf8_check (l : list N) : outcome (list N) :=
  match l with
  | [] => Ok []
  | u :: t =>
      if u <=? 0x10FFFF then
        match utf32_to_utf8_check t with
        | Ok r => Ok (write_utf8 u ++ r)
        | e => e
        end
      else Throw UnicodeError
  end.

(* str.set(token): what the ST::string holds afterwards *)
Definition set_from_token (ct : char_type) (tok : list N) : outcome (list N) :=
  match ct with
  | CtChar => from_utf8 CheckValidity tok
  | CtWchar | CtChar32 => utf32_to_utf8_check tok
  | CtChar16 => Ok []          (* only ever called with the empty token, see extract_token *)
  end.
