(* Fmt/DigitsFacts.v — what the format group needs to know about Num/Digits.v (the shared
   transcription of ST::uint_formatter::format): for a radix >= 2 and a value that fits the
   type the backwards writer stays inside its `digits` cells, terminates within its fuel
   (buffer_fits), and writes exactly the canonical digits (digits_text).                  *)
From Coq Require Import NArith ZArith List Bool Lia ZifyBool ZifyNat ZifyN.
From ST Require Import Base.Outcome Base.Units Num.Digits.
Import ListNotations.
Local Open Scope N_scope.

Lemma digit_char_glyph upper d : digit_char upper d = digit_glyph upper d.
Proof. unfold digit_char, digit_glyph. destruct (d <? 10) eqn:E; [reflexivity|]. destruct upper; lia. Qed.

Lemma div_lt_pow value radix k :
  2 <= radix -> value < radix ^ N.of_nat (S k) -> value / radix < radix ^ N.of_nat k.
Proof.
  intros Hr Hv. rewrite Nat2N.inj_succ, N.pow_succ_r' in Hv.
  apply N.div_lt_upper_bound; lia.
Qed.

(* the loop against the spec's loop; `dacc` = digit VALUES already produced *)
Lemma uint_format_loop_spec : forall k fuel fuel2 bits value radix upper dacc,
  2 <= radix -> value < radix ^ N.of_nat k ->
  (length dacc + k <= bits)%nat -> (k < fuel)%nat -> (k <= fuel2)%nat ->
  uint_format_loop fuel bits value radix upper (map (digit_glyph upper) dacc)
  = Ok (map (digit_glyph upper) (digits_fuel fuel2 value radix dacc)).
Proof.
  induction k as [|k IH]; intros fuel fuel2 bits value radix upper dacc Hr Hv Hb Hf Hf2.
  - assert (value = 0) by (simpl in Hv; lia). subst value.
    destruct fuel as [|f]; [lia|]. cbn [uint_format_loop]. rewrite N.eqb_refl.
    destruct fuel2; reflexivity.
  - destruct fuel as [|f]; [lia|]. destruct fuel2 as [|f2]; [lia|].
    cbn [uint_format_loop digits_fuel].
    destruct (value =? 0) eqn:Ez; [reflexivity|].
    rewrite map_length.
    assert (Hl : Nat.leb bits (length dacc) = false) by (apply Nat.leb_gt; lia). rewrite Hl.
    rewrite digit_char_glyph.
    change (digit_glyph upper (value mod radix) :: map (digit_glyph upper) dacc)
      with (map (digit_glyph upper) ((value mod radix) :: dacc)).
    apply IH; [exact Hr|apply div_lt_pow; assumption|simpl; lia|lia|lia].
Qed.

Lemma digits_fuel_length : forall k fuel value radix dacc,
  2 <= radix -> value < radix ^ N.of_nat k -> (k <= fuel)%nat ->
  (length dacc <= length (digits_fuel fuel value radix dacc) <= length dacc + k)%nat /\
  (value <> 0 -> (length dacc < length (digits_fuel fuel value radix dacc))%nat).
Proof.
  induction k as [|k IH]; intros fuel value radix dacc Hr Hv Hf.
  - assert (value = 0) by (simpl in Hv; lia). subst value.
    destruct fuel; cbn [digits_fuel]; try rewrite N.eqb_refl; split; try lia; congruence.
  - destruct fuel as [|f]; [lia|]. cbn [digits_fuel].
    destruct (value =? 0) eqn:Ez; [split; lia|].
    destruct (IH f (value / radix) radix ((value mod radix) :: dacc) Hr (div_lt_pow _ _ _ Hr Hv)) as [H1 H2]; [lia|].
    simpl length in *. split; lia.
Qed.

Lemma pow2_le_pow radix k : 2 <= radix -> 2 ^ k <= radix ^ k.
Proof. intros H. apply N.pow_le_mono_l. exact H. Qed.

Lemma lt_pow2_log2 v : v <> 0 -> v < 2 ^ N.of_nat (S (N.to_nat (N.log2 v))).
Proof.
  intros H. rewrite Nat2N.inj_succ, N2Nat.id. apply N.log2_spec. lia.
Qed.

(* digits_fuel does not depend on the fuel once it is sufficient *)
Lemma digits_fuel_stable : forall k f1 f2 value radix dacc,
  2 <= radix -> value < radix ^ N.of_nat k -> (k <= f1)%nat -> (k <= f2)%nat ->
  digits_fuel f1 value radix dacc = digits_fuel f2 value radix dacc.
Proof.
  induction k as [|k IH]; intros f1 f2 value radix dacc Hr Hv H1 H2.
  - assert (value = 0) by (simpl in Hv; lia). subst value.
    destruct f1, f2; cbn [digits_fuel]; try rewrite N.eqb_refl; reflexivity.
  - destruct f1 as [|f1]; [lia|]. destruct f2 as [|f2]; [lia|]. cbn [digits_fuel].
    destruct (value =? 0); [reflexivity|].
    apply (IH f1 f2); [exact Hr|apply div_lt_pow; assumption|lia|lia].
Qed.

(* ---- ST::uint_formatter<uint_T>::format for radix 2, 8, 10, 16 (any radix >= 2) ---- *)
Theorem uint_format_digits bits value radix upper :
  2 <= radix -> value < 2 ^ N.of_nat bits ->
  uint_format bits value radix upper = Ok (digits_text value radix upper).
Proof.
  intros Hr Hv. unfold uint_format, digits_text, digits_of.
  destruct (value =? 0) eqn:Ez; [reflexivity|].
  assert (Hr0 : radix =? 0 = false) by lia. rewrite Hr0.
  assert (Hk : value < radix ^ N.of_nat bits).
  { eapply N.lt_le_trans; [exact Hv|]. apply pow2_le_pow. exact Hr. }
  set (k2 := S (N.to_nat (N.log2 value))).
  assert (Hk2 : value < radix ^ N.of_nat k2).
  { eapply N.lt_le_trans; [apply lt_pow2_log2; lia|]. apply pow2_le_pow. exact Hr. }
  change (@nil N) with (map (digit_glyph upper) []) at 1.
  rewrite (uint_format_loop_spec bits (S (S bits)) bits bits value radix upper []) by (simpl; lia || assumption).
  f_equal. f_equal.
  destruct (Nat.le_ge_cases bits k2).
  - apply (digits_fuel_stable bits); [exact Hr|exact Hk|lia|lia].
  - apply (digits_fuel_stable k2); [exact Hr|exact Hk2|lia|lia].
Qed.

(* buffer_fits: never leaves its `bits` cells, never runs out of fuel, never divides by zero *)
Theorem uint_format_fits bits value radix upper :
  2 <= radix -> value < 2 ^ N.of_nat bits ->
  exists txt, uint_format bits value radix upper = Ok txt /\ (1 <= length txt <= Nat.max 1 bits)%nat.
Proof.
  intros Hr Hv. rewrite (uint_format_digits bits value radix upper Hr Hv).
  eexists. split; [reflexivity|].
  unfold digits_text. rewrite map_length. unfold digits_of.
  destruct (value =? 0) eqn:Ez; [cbn [length]; lia|].
  assert (Hk : value < radix ^ N.of_nat bits).
  { eapply N.lt_le_trans; [exact Hv|]. apply pow2_le_pow. exact Hr. }
  set (k2 := S (N.to_nat (N.log2 value))).
  assert (Hk2 : value < radix ^ N.of_nat k2).
  { eapply N.lt_le_trans; [apply lt_pow2_log2; lia|]. apply pow2_le_pow. exact Hr. }
  destruct (Nat.le_ge_cases bits k2).
  - rewrite (digits_fuel_stable bits k2 bits value radix [] Hr Hk) by lia.
    destruct (digits_fuel_length bits bits value radix [] Hr Hk) as [A B]; [lia|].
    simpl length in *. assert (value <> 0) by lia. specialize (B H0). lia.
  - destruct (digits_fuel_length k2 k2 value radix [] Hr Hk2) as [A B]; [lia|].
    simpl length in *. assert (value <> 0) by lia. specialize (B H0).
    assert (k2 <= bits)%nat by lia. lia.
Qed.

(* decimal text of an unsigned int below 10^10 has at most 10 characters (format_type(double)'s
   "%.<precision>" buffer) *)
Theorem uint_format_dec10 value :
  value < 4294967296 ->
  exists txt, uint_format 32 value 10 false = Ok txt /\ (1 <= length txt <= 10)%nat.
Proof.
  intros Hv. rewrite (uint_format_digits 32 value 10 false) by (simpl; lia).
  eexists. split; [reflexivity|].
  unfold digits_text. rewrite map_length. unfold digits_of.
  destruct (value =? 0) eqn:Ez; [simpl; lia|].
  assert (H10 : value < 10 ^ N.of_nat 10) by (simpl; lia).
  set (k2 := S (N.to_nat (N.log2 value))).
  assert (Hk2 : value < 10 ^ N.of_nat k2).
  { eapply N.lt_le_trans; [apply lt_pow2_log2; lia|]. apply pow2_le_pow. lia. }
  destruct (Nat.le_ge_cases 10 k2).
  - rewrite (digits_fuel_stable 10 k2 10 value 10 [] ltac:(lia) H10) by lia.
    destruct (digits_fuel_length 10 10 value 10 [] ltac:(lia) H10) as [A B]; [lia|].
    simpl length in *. assert (value <> 0) by lia. specialize (B H0). lia.
  - destruct (digits_fuel_length k2 k2 value 10 [] ltac:(lia) Hk2) as [A B]; [lia|].
    simpl length in *. assert (value <> 0) by lia. specialize (B H0). lia.
Qed.
