(* Fmt/ExtractProofs.v — C17, stream extraction `is >> s`:
     std::basic_string<char_T> tok;  stream >> tok;  s.set(tok.c_str(), tok.size());
   The tokenisation is libstdc++'s; Sinks.extract_token is its model in the "C" locale (validated against the
   token the real std::basic_string extraction takes on every run).  Proved here: the modelled token is exactly
   the first maximal whitespace-free run of the input; what the ST::string then holds is that token subject to
   the default validation (char streams: unchanged if well-formed, unicode_error otherwise; wchar_t streams: the
   standard UTF-8 encoding of the token's units, unicode_error iff a unit is above U+10FFFF); and extraction
   inverts insertion on whitespace-free text. *)
From Coq Require Import NArith List Bool Lia ZifyBool ZifyNat ZifyN.
From ST Require Import Base.Outcome Base.Units Fmt.Strtol Fmt.Parser Fmt.Render Fmt.RenderSpec Fmt.Sinks Fmt.Utf8Sweep.
Import ListNotations.
Local Open Scope N_scope.

Definition nospace (l : list N) : bool := forallb (fun c => negb (isspace c)) l.

(* ---- the token ---- *)
Lemma skip_ws_spec : forall l, exists pre, l = pre ++ skip_ws l /\ forallb isspace pre = true /\
  (skip_ws l = [] \/ exists c r, skip_ws l = c :: r /\ isspace c = false).
Proof.
  induction l as [|c t IH].
  - exists []. cbn. auto.
  - cbn [skip_ws]. destruct (isspace c) eqn:E.
    + destruct IH as (pre & H1 & H2 & H3). exists (c :: pre). repeat split.
      * cbn. f_equal. exact H1.
      * cbn. rewrite E, H2. reflexivity.
      * exact H3.
    + exists []. repeat split. right. exists c, t. auto.
Qed.

Lemma take_token_spec : forall l, exists rest, l = take_token l ++ rest /\ nospace (take_token l) = true /\
  (rest = [] \/ exists c r, rest = c :: r /\ isspace c = true).
Proof.
  induction l as [|c t IH].
  - exists []. cbn. auto.
  - cbn [take_token]. destruct (isspace c) eqn:E.
    + exists (c :: t). repeat split. right. exists c, t. auto.
    + destruct IH as (rest & H1 & H2 & H3). exists rest. repeat split.
      * cbn. f_equal. exact H1.
      * unfold nospace in *. cbn. rewrite E, H2. reflexivity.
      * exact H3.
Qed.

Theorem token_spec ct l : ct = CtChar \/ ct = CtWchar ->
  exists pre rest, l = pre ++ extract_token ct l ++ rest /\ forallb isspace pre = true /\
    nospace (extract_token ct l) = true /\ (rest = [] \/ exists c r, rest = c :: r /\ isspace c = true) /\
    (extract_token ct l = [] -> rest = []).
Proof.
  intros Hct.
  assert (E : extract_token ct l = take_token (skip_ws l)) by (destruct Hct; subst; reflexivity).
  rewrite E. destruct (skip_ws_spec l) as (pre & H1 & H2 & H3).
  destruct (take_token_spec (skip_ws l)) as (rest & H4 & H5 & H6).
  exists pre, rest. repeat split; try assumption.
  - rewrite <- H4. exact H1.
  - intros Hnil. destruct H3 as [H3 | (c & r & H3 & Hc)].
    + rewrite H3 in H4. cbn in H4. symmetry. exact H4.
    + rewrite H3 in Hnil. cbn in Hnil. rewrite Hc in Hnil. discriminate.
Qed.

Lemma token_of_nospace : forall l, nospace l = true -> take_token (skip_ws l) = l.
Proof.
  assert (T : forall l, nospace l = true -> take_token l = l).
  { induction l as [|c t IH]; [reflexivity|]. unfold nospace. cbn. intros H.
    apply andb_true_iff in H. destruct H as [Hc Ht]. apply negb_true_iff in Hc. rewrite Hc. f_equal. apply IH. exact Ht. }
  intros l H. destruct l as [|c t]; [reflexivity|].
  pose proof H as H'. unfold nospace in H'. cbn in H'. apply andb_true_iff in H'. destruct H' as [Hc _].
  apply negb_true_iff in Hc. cbn [skip_ws]. rewrite Hc. apply T. exact H.
Qed.

(* ---- what the string holds ---- *)
Theorem stored_char tok : N.of_nat (length tok) < huge_buffer_size ->
  set_from_token CtChar tok = if validate_utf8 tok then Ok tok else Throw UnicodeError.
Proof.
  intros H. unfold set_from_token, from_utf8.
  destruct (huge_buffer_size <=? N.of_nat (length tok)) eqn:E; [lia|reflexivity].
Qed.

Theorem stored_wide : forall tok, forallb (fun u => u <=? 0x10FFFF) tok = true ->
  set_from_token CtWchar tok = Ok (flat_map utf8_enc tok) /\ set_from_token CtChar32 tok = Ok (flat_map utf8_enc tok).
Proof.
  assert (A : forall tok, forallb (fun u => u <=? 0x10FFFF) tok = true -> utf32_to_utf8_check tok = Ok (flat_map utf8_enc tok)).
  { induction tok as [|u t IH]; [reflexivity|]. cbn [forallb flat_map utf32_to_utf8_check]. intros H.
    apply andb_true_iff in H. destruct H as [Hu Ht]. rewrite Hu, (IH Ht), write_utf8_enc by lia. reflexivity. }
  intros tok H. split; apply A; exact H.
Qed.

Theorem stored_wide_rejects : forall tok, forallb (fun u => u <=? 0x10FFFF) tok = false ->
  set_from_token CtWchar tok = Throw UnicodeError.
Proof.
  unfold set_from_token. induction tok as [|u t IH]; [discriminate|]. cbn [forallb utf32_to_utf8_check]. intros H.
  destruct (u <=? 0x10FFFF) eqn:Hu; [|reflexivity]. cbn in H. rewrite (IH H). reflexivity.
Qed.

Theorem stored_wide_both tok :
  (forallb (fun u => u <=? 0x10FFFF) tok = true ->
     set_from_token CtWchar tok = Ok (flat_map utf8_enc tok) /\ set_from_token CtChar32 tok = Ok (flat_map utf8_enc tok)) /\
  (forallb (fun u => u <=? 0x10FFFF) tok = false -> set_from_token CtWchar tok = Throw UnicodeError).
Proof. split; [exact (stored_wide tok) | exact (stored_wide_rejects tok)]. Qed.

(* ---- extraction inverts insertion on whitespace-free text ---- *)
Theorem extract_insert_char s : nospace s = true -> N.of_nat (length s) < huge_buffer_size -> validate_utf8 s = true ->
  set_from_token CtChar (extract_token CtChar (insert_units CtChar s)) = Ok s.
Proof.
  intros Hn Hh Hv. cbn [insert_units extract_token]. rewrite token_of_nospace by exact Hn.
  rewrite stored_char by exact Hh. rewrite Hv. reflexivity.
Qed.

Theorem extract_insert_wide s : nospace (decode_utf8_lax s) = true ->
  forallb (fun u => u <=? 0x10FFFF) (decode_utf8_lax s) = true ->
  set_from_token CtWchar (extract_token CtWchar (insert_units CtWchar s)) = Ok (flat_map utf8_enc (decode_utf8_lax s)).
Proof.
  intros Hn Hr. cbn [insert_units extract_token]. rewrite token_of_nospace by exact Hn.
  apply (stored_wide _ Hr).
Qed.

Theorem extract_insert_both s :
  (nospace s = true -> N.of_nat (length s) < huge_buffer_size -> validate_utf8 s = true ->
     set_from_token CtChar (extract_token CtChar (insert_units CtChar s)) = Ok s) /\
  (nospace (decode_utf8_lax s) = true -> forallb (fun u => u <=? 0x10FFFF) (decode_utf8_lax s) = true ->
     set_from_token CtWchar (extract_token CtWchar (insert_units CtWchar s)) = Ok (flat_map utf8_enc (decode_utf8_lax s))).
Proof. split; [exact (extract_insert_char s) | exact (extract_insert_wide s)]. Qed.

Example extract_insert_example :
  set_from_token CtWchar (extract_token CtWchar (insert_units CtWchar [0xC3; 0xA9; 0x41; 0xF0; 0x9F; 0x98; 0x80])) =
    Ok [0xC3; 0xA9; 0x41; 0xF0; 0x9F; 0x98; 0x80] /\
  extract_token CtChar [32; 9; 0x61; 0x62; 10; 0x63] = [0x61; 0x62].
Proof. vm_compute. split; reflexivity. Qed.
