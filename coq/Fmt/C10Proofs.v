(* Fmt/C10Proofs.v — C10 assembled: for every format string (arbitrary bytes, null pointer
   included) and every argument list, ST::format / format(validation) / the stream sinks end in
   one of the outcomes the property lists, never in a fault.  One outcome the property does NOT
   list exists and is stated separately: the library-wide ST_HUGE_BUFFER_SIZE assertion when the
   output reaches 2^28 bytes (known finding huge-output-assert).                           *)
From Coq Require Import NArith ZArith List Bool Lia ZifyBool ZifyNat ZifyN.
From ST Require Import Base.Outcome Base.Units Fmt.Strtol Fmt.Parser Fmt.ParserProofs Fmt.Render
  Fmt.DriverProofs Fmt.Sinks Fmt.SinksProofs.
Import ListNotations.
Local Open Scope N_scope.

(* the driver, whatever the sink: return / bad_format / out_of_range / invalid_argument (null
   format only) / the documented assertion with a padded character field to show for it *)
Definition driver_permitted (fmt : option (list N)) (r : outcome unit) : Prop :=
  match fmt with
  | None => r = Throw InvalidArgument
  | Some f =>
      r = Ok tt \/ r = Throw BadFormat \/ r = Throw OutOfRange \/
      (r = Abort AbCharPad /\
       exists m sp m', parse_format (cstr f) m = Ok (sp, m') /\ is_char_class sp = true /\ padded_spec sp = true)
  end.

Theorem driver_outcomes fmt args : Forall arg_ok args -> driver_permitted fmt (outW (driver fmt args)).
Proof.
  intros Ha. destruct fmt as [f|]; [|reflexivity].
  exact (driver_ok f args Ha).
Qed.

(* no fault of any kind: no read beyond the terminator (OOBRead), termination within the fuel
   S (length (fmt ++ [0])) of every loop (Hang), no pointer before the string (UBOther), no
   digit-buffer overrun (OOBWrite) *)
Theorem driver_no_fault fmt args : Forall arg_ok args -> forall f, outW (driver fmt args) <> Fault f.
Proof.
  intros Ha f E. pose proof (driver_outcomes fmt args Ha) as H. rewrite E in H.
  destruct fmt; simpl in H; [|discriminate].
  destruct H as [H|[H|[H|[H _]]]]; discriminate.
Qed.

(* ST::format(validation, fmt, args...) *)
Definition format_permitted (fmt : option (list N)) (r : outcome (list N)) : Prop :=
  match r with
  | Ok _ => fmt <> None
  | Throw BadFormat | Throw OutOfRange | Throw UnicodeError => fmt <> None
  | Throw InvalidArgument => fmt = None
  | Abort AbCharPad => fmt <> None
  | Abort AbHuge => fmt <> None              (* NOT in the property's list: see huge_only_big *)
  | _ => False
  end.

Theorem format_outcomes v fmt args : Forall arg_ok args -> format_permitted fmt (format_to_string v fmt args).
Proof.
  intros Ha. rewrite format_to_string_eq. pose proof (driver_outcomes fmt args Ha) as H.
  destruct fmt as [f|]; cbn [driver_permitted] in H.
  - assert (Hn : Some f <> None) by discriminate.
    destruct H as [H|[H|[H|[H _]]]]; rewrite H; simpl; try exact Hn.
    unfold from_utf8. destruct (huge_buffer_size <=? _); [exact Hn|].
    destruct v; try exact Hn. destruct (validate_utf8 _); exact Hn.
  - rewrite H. reflexivity.
Qed.

(* the ST_HUGE_BUFFER_SIZE assertion fires only on an output of at least 2^28 bytes *)
Theorem huge_only_big v fmt args : Forall arg_ok args ->
  format_to_string v fmt args = Abort AbHuge ->
  outW (driver fmt args) = Ok tt /\ 268435456 <= N.of_nat (length (bytes_of (fst (driver fmt args)))).
Proof.
  intros Ha H. rewrite format_to_string_eq in H. pose proof (driver_outcomes fmt args Ha) as Hd.
  destruct (outW (driver fmt args)) as [[]|x|w|f] eqn:E; try discriminate.
  - split; [reflexivity|]. unfold from_utf8 in H.
    destruct (huge_buffer_size <=? _) eqn:Eh.
    + unfold huge_buffer_size in Eh. lia.
    + destruct v; try discriminate. destruct (validate_utf8 _); discriminate.
  - exfalso. inversion H. subst w. destruct fmt; simpl in Hd; [|discriminate].
    destruct Hd as [Hd|[Hd|[Hd|[Hd _]]]]; discriminate.
Qed.

(* the only process stops: the documented assertion, with a field of class `c` that has a width
   or a pad character to show for it, or the huge-output assertion *)
Theorem abort_only_doc v fmt args r : Forall arg_ok args ->
  format_to_string v fmt args = Abort r ->
  (r = AbCharPad /\ exists f m sp m', fmt = Some f /\ parse_format (cstr f) m = Ok (sp, m')
                                      /\ is_char_class sp = true /\ padded_spec sp = true)
  \/ r = AbHuge.
Proof.
  intros Ha H. rewrite format_to_string_eq in H. pose proof (driver_outcomes fmt args Ha) as Hd.
  destruct (outW (driver fmt args)) as [[]|x|w|f] eqn:E; try discriminate.
  - right. unfold from_utf8 in H. destruct (huge_buffer_size <=? _); [congruence|].
    destruct v; try discriminate. destruct (validate_utf8 _); discriminate.
  - left. inversion H. subst w. destruct fmt as [f0|]; simpl in Hd; [|discriminate].
    destruct Hd as [Hd|[Hd|[Hd|[Hd [m [sp [m' Hw]]]]]]]; try discriminate.
    inversion Hd. split; [reflexivity|]. exists f0, m, sp, m'. tauto.
Qed.

(* ---- the statement without AbHuge is false: ST::format("{268435456}", 1) ---- *)
Definition huge_fmt : list N := [123; 50; 54; 56; 52; 51; 53; 52; 53; 54; 125].
Definition huge_args : list arg := [AInt true 32 1].

Lemma huge_driver : driver (Some huge_fmt) huge_args = ([EPad 32 268435455; EApp [49]], Ok tt).
Proof. vm_compute. reflexivity. Qed.

Theorem format_outcomes_strict_refuted :
  Forall arg_ok huge_args /\ format_to_string CheckValidity (Some huge_fmt) huge_args = Abort AbHuge.
Proof.
  split; [repeat constructor|].
  rewrite format_to_string_eq. rewrite huge_driver. unfold outW. cbn [snd fst].
  unfold from_utf8, bytes_of. cbn [flat_map event_bytes].
  rewrite !app_length, repeat_length. cbn [length].
  rewrite !Nat2N.inj_add, N2Nat.id.
  reflexivity.
Qed.

Theorem driver_no_overread fmt args : Forall arg_ok args -> outW (driver fmt args) <> Fault OOBRead.
Proof. intros H. exact (driver_no_fault fmt args H OOBRead). Qed.
Theorem driver_progress fmt args : Forall arg_ok args -> outW (driver fmt args) <> Fault Hang.
Proof. intros H. exact (driver_no_fault fmt args H Hang). Qed.

(* the hypothesis is satisfiable *)
Lemma arg_ok_example :
  Forall arg_ok [AInt false 8 200; AInt true 64 (-5); AChar32 65; AStr [65]; AFloat (fun _ _ _ => [48])].
Proof. repeat constructor; simpl; try lia; try discriminate; reflexivity. Qed.

(* the size of the output without building it (the OCaml driver uses this to predict the
   huge-output assertion for a width of 2^28 without materialising 2^28 list cells) *)
Definition event_size (e : event) : N :=
  match e with EApp d => N.of_nat (length d) | EPad _ n => n end.
Definition trace_size (t : list event) : N := fold_right (fun e s => event_size e + s) 0 t.

Lemma bytes_of_size t : N.of_nat (length (bytes_of t)) = trace_size t.
Proof.
  induction t as [|e t IH]; [reflexivity|].
  unfold bytes_of in *. cbn [flat_map trace_size fold_right]. rewrite app_length, Nat2N.inj_add, IH.
  f_equal. destruct e as [d|c n]; cbn [event_bytes event_size]; [reflexivity|].
  rewrite repeat_length, N2Nat.id. reflexivity.
Qed.

Theorem huge_when_big v fmt args :
  outW (driver fmt args) = Ok tt -> 268435456 <= trace_size (fst (driver fmt args)) ->
  format_to_string v fmt args = Abort AbHuge.
Proof.
  intros H Hs. rewrite format_to_string_eq, H. unfold from_utf8. rewrite bytes_of_size.
  assert (E : huge_buffer_size <=? trace_size (fst (driver fmt args)) = true) by (unfold huge_buffer_size; lia).
  rewrite E. reflexivity.
Qed.
