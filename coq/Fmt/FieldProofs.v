(* Fmt/FieldProofs.v — C11, one field, all argument kinds: text (precision cut, width, side),
   bool, the character class (UTF-8 of the code point, U+FFFD outside 0..10FFFF, the documented
   assertion when padded), doubles (libc text + padding), and the integers of RenderProofs.v,
   assembled into   format_type sp x  =  RenderSpec.render_field sp x   for every spec whose
   numbers are ints and every argument value its C++ type can hold.                        *)
From Coq Require Import NArith ZArith List Bool Lia ZifyBool ZifyNat ZifyN.
From ST Require Import Base.Outcome Base.Units Num.Digits Fmt.Strtol Fmt.StrtolProofs Fmt.Parser
  Fmt.ParserProofs Fmt.DigitsFacts Fmt.Render Fmt.DriverProofs Fmt.Sinks Fmt.SinksProofs Fmt.RenderSpec
  Fmt.Utf8Sweep Fmt.RenderProofs.
Import ListNotations.
Local Open Scope N_scope.

(* ---- text ---- *)
Theorem string_render sp (text : list N) :
  int_range (minimum_length sp) -> int_range (precision sp) -> (Z.of_nat (length text) < 2147483648)%Z ->
  exists t, returns (format_string sp text AlignLeft) t tt /\ bytes_of t = render_text sp text.
Proof.
  intros Hm Hp Hl. unfold int_range in *. unfold format_string, render_text, fill, spec_pad_char.
  fold (pad_or_space sp).
  set (size0 := N.of_nat (length text)).
  set (size := if (0 <=? precision sp)%Z && (Z.to_N (precision sp) <? size0) then Z.to_N (precision sp) else size0).
  set (body := firstn (N.to_nat size) text).
  assert (Hbody : body = if (0 <=? precision sp)%Z then firstn (Z.to_nat (precision sp)) text else text).
  { subst body size. destruct (0 <=? precision sp)%Z eqn:E0; cbn [andb].
    - destruct (Z.to_N (precision sp) <? size0) eqn:E1.
      + f_equal. lia.
      + subst size0. rewrite Nat2N.id. rewrite firstn_all. symmetry. apply firstn_all2. lia.
    - subst size0. rewrite Nat2N.id. apply firstn_all. }
  assert (Hlen : Z.of_nat (length body) = Z.of_N size).
  { subst body. rewrite firstn_length. subst size size0.
    destruct ((0 <=? precision sp)%Z && (Z.to_N (precision sp) <? N.of_nat (length text))) eqn:E; lia. }
  assert (Hsz : (0 <= Z.of_N size < 2147483648)%Z).
  { subst size size0. destruct ((0 <=? precision sp)%Z && (Z.to_N (precision sp) <? N.of_nat (length text))); lia. }
  rewrite <- Hbody.
  unfold size_to_int. rewrite to_int_small by lia.
  destruct (Z.of_N size <? minimum_length sp)%Z eqn:Ew.
  - rewrite to_size_small by lia.
    assert (Hc : N.to_nat (Z.to_N (minimum_length sp - Z.of_N size)) = Z.to_nat (minimum_length sp - Z.of_nat (length body))) by lia.
    destruct (align sp); cbn iota.
    + eexists. split; [eapply returns_bind; apply returns_emit|].
      unfold bytes_of. cbn [flat_map event_bytes app]. rewrite Hc, !app_nil_r. reflexivity.
    + eexists. split; [eapply returns_bind; apply returns_emit|].
      unfold bytes_of. cbn [flat_map event_bytes app]. rewrite Hc, !app_nil_r. reflexivity.
    + eexists. split; [eapply returns_bind; apply returns_emit|].
      unfold bytes_of. cbn [flat_map event_bytes app]. rewrite Hc, !app_nil_r. reflexivity.
  - assert (Hc : Z.to_nat (minimum_length sp - Z.of_nat (length body)) = O) by lia.
    rewrite Hc. cbn [repeat].
    eexists. split; [apply returns_emit|].
    unfold bytes_of. cbn [flat_map event_bytes]. destruct (align sp); cbn [app]; first [reflexivity | apply app_nil_r].
Qed.

(* ---- the character class ---- *)
Lemma padded_eq sp : padded_spec sp = padded sp.
Proof. reflexivity. Qed.

Theorem char_render sp v : (-9223372036854775808 <= v < 18446744073709551616)%Z ->
  if padded sp then format_char sp (to_ull v) = ([], Abort AbCharPad)
  else returns (format_char sp (to_ull v)) [EApp (render_char v)] tt.
Proof.
  intros Hv. unfold format_char.
  change (negb (minimum_length sp =? 0)%Z || negb (pad sp =? 0)) with (padded sp).
  destruct (padded sp); [reflexivity|].
  unfold render_char, to_ull.
  destruct ((0 <=? v)%Z && (v <=? 1114111)%Z) eqn:E.
  - rewrite Z.mod_small by lia.
    assert (E2 : Z.to_N v <=? 1114111 = true) by lia. rewrite E2.
    rewrite write_utf8_enc by lia. reflexivity.
  - assert (E2 : Z.to_N (v mod 18446744073709551616) <=? 1114111 = false).
    { destruct (0 <=? v)%Z eqn:E0.
      - rewrite Z.mod_small by lia. lia.
      - assert (Em : (v mod 18446744073709551616 = v + 18446744073709551616)%Z).
        { symmetry. apply (Z.mod_unique v 18446744073709551616 (-1)); lia. }
        rewrite Em. lia. }
    rewrite E2. reflexivity.
Qed.

(* ---- doubles ---- *)
Theorem double_render sp r :
  spec_ints sp -> (forall p z c, r p z c <> []) ->
  (forall p z c, (Z.of_nat (length (r p z c)) < 2147483648)%Z) ->
  exists t, returns (format_double sp r) t tt /\
            bytes_of t = render_float sp (r (always_signed sp) (precision sp) (fclass sp)).
Proof.
  intros [Hm [Hp _]] Hr Hl. unfold format_double, render_float, fill, spec_pad_char. fold (pad_or_space sp).
  assert (H1 : returns (if (0 <=? precision sp)%Z
                     then bindW (liftW (uint_format 32 (Z.to_N (precision sp)) 10 false))
                            (fun ptxt => if Nat.ltb 0 (length ptxt)
                                            && Nat.ltb (length ptxt + S (1 + (if always_signed sp then 1 else 0)) + 2) 32
                                         then retW tt else liftW (Abort AbFloatFmt))
                     else retW tt) [] tt).
  { destruct (0 <=? precision sp)%Z eqn:E; [|reflexivity].
    unfold int_range in Hp.
    destruct (uint_format_dec10 (Z.to_N (precision sp))) as [txt [Ht Hlt]]; [lia|].
    change (@nil event) with (@nil event ++ []).
    eapply returns_bind; [apply returns_lift; exact Ht|]. cbv beta.
    assert (E2 : Nat.ltb 0 (length txt) && Nat.ltb (length txt + S (1 + (if always_signed sp then 1 else 0)) + 2) 32 = true).
    { destruct (always_signed sp); apply andb_true_iff; split; apply Nat.ltb_lt; lia. }
    rewrite E2. reflexivity. }
  specialize (Hr (always_signed sp) (precision sp) (fclass sp)).
  specialize (Hl (always_signed sp) (precision sp) (fclass sp)).
  set (out := r (always_signed sp) (precision sp) (fclass sp)) in *.
  assert (E3 : (Z.of_nat (length out) <=? 0)%Z = false) by (destruct out; [congruence|simpl length; lia]).
  unfold int_range in Hm.
  destruct (Z.of_nat (length out) <? minimum_length sp)%Z eqn:Ew.
  - assert (Hc : N.to_nat (to_size (minimum_length sp - Z.of_nat (length out))) = Z.to_nat (minimum_length sp - Z.of_nat (length out))).
    { rewrite to_size_small by lia. lia. }
    destruct (align sp).
    + eexists. split.
      * eapply returns_bind; [exact H1|]. cbv beta zeta. fold out. rewrite ?E3, ?Ew. eapply returns_bind; apply returns_emit.
      * unfold bytes_of. cbn [flat_map event_bytes app]. rewrite Hc, !app_nil_r. reflexivity.
    + eexists. split.
      * eapply returns_bind; [exact H1|]. cbv beta zeta. fold out. rewrite ?E3, ?Ew. eapply returns_bind; apply returns_emit.
      * unfold bytes_of. cbn [flat_map event_bytes app]. rewrite Hc, !app_nil_r. reflexivity.
    + eexists. split.
      * eapply returns_bind; [exact H1|]. cbv beta zeta. fold out. rewrite ?E3, ?Ew. eapply returns_bind; apply returns_emit.
      * unfold bytes_of. cbn [flat_map event_bytes app]. rewrite Hc, !app_nil_r. reflexivity.
  - assert (Hc : Z.to_nat (minimum_length sp - Z.of_nat (length out)) = O) by lia.
    eexists. split.
    + eapply returns_bind; [exact H1|]. cbv beta zeta. fold out. rewrite ?E3, ?Ew. apply returns_emit.
    + rewrite Hc. cbn [repeat]. unfold bytes_of. cbn [flat_map event_bytes app].
      destruct (align sp); cbn [app]; first [reflexivity | apply app_nil_r].
Qed.

(* ---- every argument kind ---- *)
(* what the C++ type of the argument guarantees about its value *)
Definition arg_range (x : arg) : Prop :=
  match x with
  | AInt true bits v => (1 <= bits <= 64)%nat /\ (- 2 ^ (Z.of_nat bits - 1) <= v < 2 ^ (Z.of_nat bits - 1))%Z
  | AInt false bits v => (bits <= 64)%nat /\ (0 <= v < 2 ^ Z.of_nat bits)%Z
  | AChar v => (-128 <= v < 128)%Z
  | AWChar v => int_range v
  | AChar32 v => v < 4294967296
  | ABool _ => True
  | AStr s => (Z.of_nat (length s) < 2147483648)%Z
  | ANullStr => True
  | AFloat r => (forall p z c, r p z c <> []) /\ (forall p z c, (Z.of_nat (length (r p z c)) < 2147483648)%Z)
  end.

(* the outcome of a field against the specification *)
Definition field_matches (w : W unit) (fr : field_result) : Prop :=
  match fr with
  | FBytes b => exists t, returns w t tt /\ bytes_of t = b
  | FCharPad => w = ([], Abort AbCharPad)
  end.

Lemma integral_s_render bits sp v : spec_ints sp -> (1 <= bits <= 64)%nat ->
  (- 2 ^ (Z.of_nat bits - 1) <= v < 2 ^ (Z.of_nat bits - 1))%Z ->
  field_matches (if is_char_class sp then format_char sp (to_ull v) else format_numeric_s bits sp v)
                (render_integral sp v).
Proof.
  intros [Hm _] Hb Hv. unfold render_integral. change (is_char sp) with (is_char_class sp).
  assert (Hpow : (2 ^ (Z.of_nat bits - 1) <= 2 ^ 63)%Z) by (apply Z.pow_le_mono_r; lia).
  assert (Hpow2 : (2 ^ (Z.of_nat bits - 1) < 2 ^ Z.of_nat bits)%Z) by (apply Z.pow_lt_mono_r; lia).
  destruct (is_char_class sp) eqn:Ec.
  - pose proof (char_render sp v) as Hcr. destruct (padded sp).
    + apply Hcr. lia.
    + eexists. split; [apply Hcr; lia|]. unfold bytes_of. cbn [flat_map event_bytes]. apply app_nil_r.
  - apply numeric_s_render; [exact Ec|exact Hm|lia|lia].
Qed.

Lemma z_pow_N bits : Z.of_N (2 ^ N.of_nat bits) = (2 ^ Z.of_nat bits)%Z.
Proof. rewrite N2Z.inj_pow, nat_N_Z. reflexivity. Qed.

Lemma integral_u_render bits sp v : spec_ints sp -> (bits <= 64)%nat ->
  (0 <= v < 2 ^ Z.of_nat bits)%Z ->
  field_matches (if is_char_class sp then format_char sp (to_ull v) else format_numeric_u bits sp (Z.to_N v))
                (render_integral sp v).
Proof.
  intros [Hm _] Hb Hv. unfold render_integral. change (is_char sp) with (is_char_class sp).
  assert (Hpow : (2 ^ Z.of_nat bits <= 2 ^ 64)%Z) by (apply Z.pow_le_mono_r; lia).
  destruct (is_char_class sp) eqn:Ec.
  - pose proof (char_render sp v) as Hcr. destruct (padded sp).
    + apply Hcr. lia.
    + eexists. split; [apply Hcr; lia|]. unfold bytes_of. cbn [flat_map event_bytes]. apply app_nil_r.
  - destruct (numeric_u_render bits sp (Z.to_N v) Ec Hm Hb) as [t [Ht Hbt]].
    + apply N2Z.inj_lt. rewrite z_pow_N, Z2N.id; lia.
    + exists t. split; [exact Ht|]. rewrite Hbt, Z2N.id by lia. reflexivity.
Qed.

(* C11, one field: the model's writer calls spell exactly the specified rendering *)
Theorem field_render sp x : spec_ints sp -> arg_range x ->
  field_matches (format_type sp x) (render_field sp x).
Proof.
  intros Hsp Hx. pose proof Hsp as [Hm [Hp _]].
  destruct x as [sgn bits v|v|v|v|b|s| |r]; cbn [arg_range] in Hx; cbn [format_type render_field].
  - destruct sgn.
    + apply integral_s_render; tauto.
    + apply integral_u_render; tauto.
  - (* char: promoted to int for the numeric path *)
    pose proof (integral_s_render 32 sp v Hsp ltac:(lia)) as H. apply H. simpl. lia.
  - unfold int_range in Hx. rewrite to_int_small by (unfold int_range; lia).
    pose proof (integral_s_render 32 sp v Hsp ltac:(lia)) as H. apply H. simpl. lia.
  - (* char32_t: static_cast<int> before the character class, unsigned for the numeric path *)
    unfold render_integral. change (is_char sp) with (is_char_class sp).
    destruct (is_char_class sp) eqn:Ec.
    + destruct (Z.of_N v <? 2147483648)%Z eqn:E31.
      * rewrite to_int_small by lia.
        pose proof (char_render sp (Z.of_N v)) as Hcr. destruct (padded sp).
        -- apply Hcr. lia.
        -- eexists. split; [apply Hcr; lia|]. unfold bytes_of. cbn [flat_map event_bytes]. apply app_nil_r.
      * assert (Eti : to_int (Z.of_N v) = (Z.of_N v - 4294967296)%Z).
        { unfold to_int. replace ((Z.of_N v + 2147483648) mod 4294967296)%Z with (Z.of_N v - 2147483648)%Z; [lia|].
          apply (Z.mod_unique (Z.of_N v + 2147483648) 4294967296 1); lia. }
        rewrite Eti.
        pose proof (char_render sp (Z.of_N v - 4294967296)) as Hcr.
        assert (Hrc : render_char (Z.of_N v - 4294967296) = render_char (Z.of_N v)).
        { unfold render_char.
          assert (E1 : (0 <=? Z.of_N v - 4294967296)%Z && (Z.of_N v - 4294967296 <=? 1114111)%Z = false) by lia.
          assert (E2 : (0 <=? Z.of_N v)%Z && (Z.of_N v <=? 1114111)%Z = false) by lia.
          rewrite E1, E2. reflexivity. }
        destruct (padded sp).
        -- apply Hcr. lia.
        -- eexists. split; [apply Hcr; lia|]. unfold bytes_of. cbn [flat_map event_bytes]. rewrite app_nil_r. exact Hrc.
    + destruct (numeric_u_render 32 sp v Ec Hm ltac:(lia)) as [t [Ht Hbt]]; [simpl; lia|].
      exists t. split; assumption.
  - destruct b; apply string_render; simpl; try assumption; lia.
  - apply string_render; assumption.
  - exists []. split; reflexivity.
  - destruct Hx as [H1 H2]. apply double_render; assumption.
Qed.

(* never_truncates: an integer field is its natural text (sign, prefix, digits) extended to the
   width — its length is max(width, natural length), whatever the flags *)
Theorem render_int_length sp v :
  Z.of_nat (length (render_int sp v)) =
  Z.max (minimum_length sp)
        (Z.of_nat (length (head_of sp v) +
                   length (digits_text (Z.abs_N v) (radix_spec (dclass sp)) (upper_spec (dclass sp))))).
Proof.
  rewrite render_int_layout. unfold layout, fill.
  set (h := head_of sp v). set (d := digits_text _ _ _).
  destruct (numeric_pad sp); [|destruct (align sp)]; rewrite !app_length, repeat_length; lia.
Qed.

(* ... and the natural text is in it, in order, with only pad characters added *)
Theorem render_int_contains sp v : exists p1 p2 p3,
  render_int sp v = p1 ++ head_of sp v ++ p2
                    ++ digits_text (Z.abs_N v) (radix_spec (dclass sp)) (upper_spec (dclass sp)) ++ p3
  /\ Forall (fun c => c = spec_pad_char sp) (p1 ++ p2 ++ p3).
Proof.
  rewrite render_int_layout. unfold layout, fill.
  set (h := head_of sp v). set (d := digits_text _ _ _). set (n := Z.to_nat _).
  assert (Hrep : Forall (fun c => c = spec_pad_char sp) (repeat (spec_pad_char sp) n)).
  { apply Forall_forall. intros x Hx. apply repeat_spec in Hx. exact Hx. }
  destruct (numeric_pad sp); [|destruct (align sp)].
  - exists [], (repeat (spec_pad_char sp) n), []. cbn [app]. rewrite !app_nil_r. split; [reflexivity|exact Hrep].
  - exists (repeat (spec_pad_char sp) n), [], []. cbn [app]. rewrite !app_nil_r. split; [reflexivity|exact Hrep].
  - exists [], [], (repeat (spec_pad_char sp) n). cbn [app]. split; [reflexivity|exact Hrep].
  - exists (repeat (spec_pad_char sp) n), [], []. cbn [app]. rewrite !app_nil_r. split; [reflexivity|exact Hrep].
Qed.

(* non-vacuity *)
Lemma arg_range_example :
  arg_range (AInt true 64 (-9223372036854775808)) /\ arg_range (AInt false 8 255) /\ arg_range (AChar (-23)) /\
  arg_range (AStr [65; 66]) /\ arg_range (AFloat (fun _ _ _ => [48])) /\ spec_ints default_spec.
Proof.
  repeat split; simpl; try lia; try discriminate; unfold int_range; simpl; lia.
Qed.
