(* Fmt/Parser.v — ST::format_writer (include/st_formatter.h) transcribed:
     fetch_prefix, next_format, parse_format, format_spec.
   The format string is `fmt : list N` (its non-zero bytes); the array the const char* points
   into is `cstr fmt` = fmt ++ [0]: index (length fmt) is the terminator, any index beyond it
   is outside the allocation and reading it is Fault OOBRead (`at_`).  m_format_str and `next`
   are nat offsets into that array.
   The writer's virtual append/append_char calls become EVENTS: the driver's result is the
   sequence of calls it made, in order, plus how it ended (returned / threw / aborted /
   faulted).  A sink (Fmt/Sinks.v) is an interpretation of the events; nothing the driver does
   depends on the sink (append returns *this), so this IS the parametricity in the writer.
   MODEL ONLY (no proofs here).                                                          *)
From Coq Require Import NArith ZArith List Bool Lia.
From ST Require Import Base.Outcome Base.Units Fmt.Strtol.
Import ListNotations.
Local Open Scope N_scope.
Local Open Scope outcome_scope.

(* ---- writer calls ---- *)
Inductive event :=
| EApp (data : list N)            (* append(data, size) *)
| EPad (ch : N) (count : N).      (* append_char(ch, count): ch is the char's byte, count a size_t *)

(* a computation that calls the writer: the calls made so far, then how it went on *)
Definition W (A : Type) : Type := (list event * outcome A)%type.
Definition retW {A} (a : A) : W A := ([], Ok a).
Definition liftW {A} (o : outcome A) : W A := ([], o).
Definition emit (e : event) : W unit := ([e], Ok tt).
Definition bindW {A B} (m : W A) (k : A -> W B) : W B :=
  match m with
  | (t, Ok a) => let '(t2, r) := k a in (t ++ t2, r)
  | (t, Throw e) => (t, Throw e)
  | (t, Abort w) => (t, Abort w)
  | (t, Fault f) => (t, Fault f)
  end.
Declare Scope W_scope.
Notation "x <~ m ;; k" := (bindW m (fun x => k))
  (at level 61, m at next level, right associativity) : W_scope.
Notation "' p <~ m ;; k" := (bindW m (fun x => match x with p => k end))
  (at level 61, p pattern, m at next level, right associativity) : W_scope.
Local Open Scope W_scope.

(* ---- ST::format_spec ---- *)
Inductive alignment := AlignDefault | AlignLeft | AlignRight.
Inductive digit_class := DigitDefault | DigitDec | DigitHex | DigitHexUpper | DigitOct | DigitBin | DigitChar.
Inductive float_class := FloatDefault | FloatFixed | FloatExp | FloatExpUpper.

Record format_spec := mk_spec {
  minimum_length : Z;      (* int *)
  precision : Z;           (* int *)
  arg_index : Z;           (* int *)
  align : alignment;
  dclass : digit_class;
  fclass : float_class;
  pad : N;                 (* char, as its byte value; 0 = unset *)
  always_signed : bool;
  class_prefix : bool;
  numeric_pad : bool
}.

(* format_spec() *)
Definition default_spec : format_spec :=
  mk_spec 0 (-1) (-1) AlignDefault DigitDefault FloatDefault 0 false false false.

Definition set_minimum_length (s : format_spec) (v : Z) :=
  mk_spec v (precision s) (arg_index s) (align s) (dclass s) (fclass s) (pad s) (always_signed s) (class_prefix s) (numeric_pad s).
Definition set_precision (s : format_spec) (v : Z) :=
  mk_spec (minimum_length s) v (arg_index s) (align s) (dclass s) (fclass s) (pad s) (always_signed s) (class_prefix s) (numeric_pad s).
Definition set_arg_index (s : format_spec) (v : Z) :=
  mk_spec (minimum_length s) (precision s) v (align s) (dclass s) (fclass s) (pad s) (always_signed s) (class_prefix s) (numeric_pad s).
Definition set_align (s : format_spec) (v : alignment) :=
  mk_spec (minimum_length s) (precision s) (arg_index s) v (dclass s) (fclass s) (pad s) (always_signed s) (class_prefix s) (numeric_pad s).
Definition set_dclass (s : format_spec) (v : digit_class) :=
  mk_spec (minimum_length s) (precision s) (arg_index s) (align s) v (fclass s) (pad s) (always_signed s) (class_prefix s) (numeric_pad s).
Definition set_fclass (s : format_spec) (v : float_class) :=
  mk_spec (minimum_length s) (precision s) (arg_index s) (align s) (dclass s) v (pad s) (always_signed s) (class_prefix s) (numeric_pad s).
(* spec.pad = p; spec.numeric_pad = np; *)
Definition set_pad (s : format_spec) (p : N) (np : bool) :=
  mk_spec (minimum_length s) (precision s) (arg_index s) (align s) (dclass s) (fclass s) p (always_signed s) (class_prefix s) np.
Definition set_always_signed (s : format_spec) :=
  mk_spec (minimum_length s) (precision s) (arg_index s) (align s) (dclass s) (fclass s) (pad s) true (class_prefix s) (numeric_pad s).
Definition set_class_prefix (s : format_spec) :=
  mk_spec (minimum_length s) (precision s) (arg_index s) (align s) (dclass s) (fclass s) (pad s) (always_signed s) true (numeric_pad s).

(* ---- the bytes [from, from+n) of the array, as append(m_format_str, next - m_format_str) reads them ---- *)
Definition rd_range (a : list N) (from n : nat) : outcome (list N) :=
  if Nat.leb (from + n) (length a) then Ok (firstn n (skipn from a)) else Fault OOBRead.

(* append(m_format_str, next - m_format_str): the size is a size_t difference of two pointers *)
Definition append_range (a : list N) (m next : nat) : W unit :=
  if Nat.ltb next m then liftW (Fault OOBRead)      (* negative difference -> huge size_t *)
  else d <~ liftW (rd_range a m (next - m)) ;; emit (EApp d).

(* ---- fetch_prefix ----
     const char *next = m_format_str;
     while ( *next ) {
         if ( *next == '{') {
             if (next[1] != '{') break;
             append(m_format_str, next - m_format_str);  m_format_str = ++next;
         } else if ( *next == '}') {
             if (next[1] == '}') { append(m_format_str, next - m_format_str);  m_format_str = ++next; }
         }
         ++next;
     }
   the loop: state (m, next); result = state at loop exit *)
Fixpoint fetch_loop (fuel : nat) (a : list N) (m next : nat) : W (nat * nat) :=
  match fuel with
  | O => liftW (Fault Hang)
  | S f =>
      c <~ liftW (at_ a next) ;;
      if c =? 0 then retW (m, next)
      else if c =? 123 then                                  (* '{' *)
        c1 <~ liftW (at_ a (S next)) ;;
        if negb (c1 =? 123) then retW (m, next)              (* break *)
        else _ <~ append_range a m next ;; fetch_loop f a (S next) (S (S next))
      else if c =? 125 then                                  (* '}' *)
        c1 <~ liftW (at_ a (S next)) ;;
        if c1 =? 125 then _ <~ append_range a m next ;; fetch_loop f a (S next) (S (S next))
        else fetch_loop f a m (S next)
      else fetch_loop f a m (S next)
  end.

(*   if (next != m_format_str) append(m_format_str, next - m_format_str);
     m_format_str = next;
     return *m_format_str;                  result: (new m_format_str, the char) *)
Definition fetch_prefix (a : list N) (m : nat) : W (nat * N) :=
  '(m1, next) <~ fetch_loop (S (length a)) a m m ;;
  _ <~ (if Nat.eqb next m1 then retW tt else append_range a m1 next) ;;
  c <~ liftW (at_ a next) ;;
  retW (next, c).

(* next_format: switch (fetch_prefix()) { case 0: false; case '{': true; default: throw bad_format } *)
Definition next_format (a : list N) (m : nat) : W (nat * bool) :=
  '(m1, c) <~ fetch_prefix a m ;;
  if c =? 0 then retW (m1, false)
  else if c =? 123 then retW (m1, true)
  else liftW (Throw BadFormat).

(* ---- parse_format ----  the for(;;) switch ( *++m_format_str ); makes no writer calls *)
Fixpoint parse_loop (fuel : nat) (a : list N) (m : nat) (spec : format_spec) : outcome (format_spec * nat) :=
  match fuel with
  | O => Fault Hang
  | S f =>
      let m1 := S m in                                        (* ++m_format_str *)
      c <- at_ a m1 ;;
      if c =? 0 then Throw BadFormat
      else if c =? 125 then Ok (spec, S m1)                   (* '}': ++m_format_str; return *)
      else if c =? 60 then parse_loop f a m1 (set_align spec AlignLeft)          (* '<' *)
      else if c =? 62 then parse_loop f a m1 (set_align spec AlignRight)         (* '>' *)
      else if c =? 95 then                                                       (* '_' *)
        p <- at_ a (S m1) ;;                                  (* spec.pad = *(m_format_str + 1) *)
        if p =? 0 then Throw BadFormat
        else parse_loop f a (S m1) (set_pad spec p false)
      else if c =? 48 then parse_loop f a m1 (set_pad spec 48 true)              (* '0' *)
      else if c =? 35 then parse_loop f a m1 (set_class_prefix spec)             (* '#' *)
      else if c =? 120 then parse_loop f a m1 (set_dclass spec DigitHex)         (* 'x' *)
      else if c =? 88 then parse_loop f a m1 (set_dclass spec DigitHexUpper)     (* 'X' *)
      else if c =? 43 then parse_loop f a m1 (set_always_signed spec)            (* '+' *)
      else if c =? 100 then parse_loop f a m1 (set_dclass spec DigitDec)         (* 'd' *)
      else if c =? 111 then parse_loop f a m1 (set_dclass spec DigitOct)         (* 'o' *)
      else if c =? 98 then parse_loop f a m1 (set_dclass spec DigitBin)          (* 'b' *)
      else if c =? 99 then parse_loop f a m1 (set_dclass spec DigitChar)         (* 'c' *)
      else if c =? 102 then parse_loop f a m1 (set_fclass spec FloatFixed)       (* 'f' *)
      else if c =? 101 then parse_loop f a m1 (set_fclass spec FloatExp)         (* 'e' *)
      else if c =? 69 then parse_loop f a m1 (set_fclass spec FloatExpUpper)     (* 'E' *)
      else if (49 <=? c) && (c <=? 57) then                                      (* '1'..'9' *)
        '(v, e) <- strtol10 a m1 ;;
        match e with
        | O => Fault UBOther                                  (* end - 1 before the array *)
        | S e' => parse_loop f a e' (set_minimum_length spec (to_int v))
        end
      else if c =? 46 then                                                       (* '.' *)
        let m2 := S m1 in
        c2 <- at_ a m2 ;;                                     (* if ( *++m_format_str == 0) throw *)
        if c2 =? 0 then Throw BadFormat
        else
          '(v, e) <- strtol10 a m2 ;;
          match e with
          | O => Fault UBOther
          | S e' => parse_loop f a e' (set_precision spec (to_int v))
          end
      else if c =? 38 then                                                       (* '&' *)
        let m2 := S m1 in
        c2 <- at_ a m2 ;;
        if c2 =? 0 then Throw BadFormat
        else
          '(v, e) <- strtol10 a m2 ;;
          match e with
          | O => Fault UBOther
          | S e' => parse_loop f a e' (set_arg_index spec (to_int v))
          end
      else Throw BadFormat
  end.

(* ST_ASSERT( *m_format_str == '{', ...); result: (spec, new m_format_str) *)
Definition parse_format (a : list N) (m : nat) : outcome (format_spec * nat) :=
  c <- at_ a m ;;
  if negb (c =? 123) then Abort AbParseNoFmt
  else parse_loop (S (length a)) a m default_spec.
