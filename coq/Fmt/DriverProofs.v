(* Fmt/DriverProofs.v — the driver half of C10: every format_type overload ends normally or in
   the documented character-padding assertion, and apply_format, for EVERY format string and
   every argument list, ends in one of: return, bad_format, out_of_range, that assertion —
   never a fault (no over-read, no hang, no buffer overrun in the digit writer).          *)
From Coq Require Import NArith ZArith List Bool Lia ZifyBool ZifyNat ZifyN.
From ST Require Import Base.Outcome Base.Units Num.Digits Fmt.Strtol Fmt.StrtolProofs Fmt.Parser
  Fmt.ParserProofs Fmt.DigitsFacts Fmt.Render.
Import ListNotations.
Local Open Scope N_scope.

Ltac wsimp := repeat (rewrite ?outW_bind, ?outW_emit, ?outW_ret, ?outW_lift; cbn [bind]).

(* what the C++ types guarantee about an argument *)
Definition arg_ok (x : arg) : Prop :=
  match x with
  | AInt false bits v => (0 <= v)%Z /\ Z.to_N v < 2 ^ N.of_nat bits
  | AChar32 v => v < 2 ^ N.of_nat 32
  | AFloat r => forall p z c, r p z c <> []          (* printf of a double is never empty *)
  | _ => True
  end.

Definition padded_spec (sp : format_spec) : bool := negb (minimum_length sp =? 0)%Z || negb (pad sp =? 0).

(* how one field can end *)
Definition field_good (sp : format_spec) (r : outcome unit) : Prop :=
  r = Ok tt \/ (r = Abort AbCharPad /\ is_char_class sp = true /\ padded_spec sp = true).

Lemma to_uint_lt bits z : to_uint bits z < 2 ^ N.of_nat bits.
Proof.
  unfold to_uint.
  assert (Hp : (0 < 2 ^ Z.of_nat bits)%Z) by (apply Z.pow_pos_nonneg; lia).
  pose proof (Z.mod_pos_bound z (2 ^ Z.of_nat bits) Hp) as Hb.
  apply N2Z.inj_lt. rewrite Z2N.id by lia. rewrite N2Z.inj_pow. rewrite nat_N_Z. simpl Z.of_N. lia.
Qed.

Lemma abs_value_lt bits v : abs_value bits v < 2 ^ N.of_nat bits.
Proof. unfold abs_value. destruct (v <? 0)%Z; apply to_uint_lt. Qed.

Lemma format_string_ok sp text al : outW (format_string sp text al) = Ok tt.
Proof.
  unfold format_string.
  destruct (size_to_int _ <? minimum_length sp)%Z; [|reflexivity].
  destruct (match align sp with AlignDefault => al | x => x end); wsimp; reflexivity.
Qed.

Lemma format_numeric_prefix_ok sp nt : outW (format_numeric_prefix sp nt) = Ok tt.
Proof.
  unfold format_numeric_prefix. wsimp.
  assert (H1 : outW (match nt with
                     | NumNegative => emit (EPad 45 1)
                     | _ => if always_signed sp then emit (EPad 43 1) else retW tt
                     end) = Ok tt).
  { destruct nt; try reflexivity; destruct (always_signed sp); reflexivity. }
  rewrite H1. cbn [bind].
  destruct nt; try reflexivity; destruct (class_prefix sp); try reflexivity; destruct (dclass sp); reflexivity.
Qed.

Lemma format_numeric_string_ok sp text nt : outW (format_numeric_string sp text nt) = Ok tt.
Proof.
  unfold format_numeric_string.
  destruct (numeric_pad sp).
  - wsimp. rewrite format_numeric_prefix_ok. cbn [bind]. wsimp. reflexivity.
  - destruct (match align sp with AlignDefault => AlignRight | x => x end); wsimp;
      rewrite ?format_numeric_prefix_ok; cbn [bind]; wsimp; reflexivity.
Qed.

Lemma radix_of_ok dc : (match dc with DigitChar => false | _ => true end) = true ->
  exists radix upper, radix_of dc = Ok (radix, upper) /\ 2 <= radix.
Proof. destruct dc; intros H; try discriminate; simpl; eexists _, _; (split; [reflexivity|lia]). Qed.

Lemma not_char_class sp : is_char_class sp = false ->
  (match dclass sp with DigitChar => false | _ => true end) = true.
Proof. unfold is_char_class. destruct (dclass sp); intros; congruence. Qed.

Lemma format_numeric_u_ok bits sp v : is_char_class sp = false -> v < 2 ^ N.of_nat bits ->
  outW (format_numeric_u bits sp v) = Ok tt.
Proof.
  intros Hc Hv. unfold format_numeric_u.
  destruct (radix_of_ok (dclass sp) (not_char_class sp Hc)) as [radix [upper [Hr Hr2]]].
  wsimp. rewrite Hr. cbn [bind]. wsimp.
  destruct (uint_format_fits bits v radix upper Hr2 Hv) as [txt [Ht _]]. rewrite Ht. cbn [bind].
  apply format_numeric_string_ok.
Qed.

Lemma format_numeric_s_ok bits sp v : is_char_class sp = false ->
  outW (format_numeric_s bits sp v) = Ok tt.
Proof.
  intros Hc. unfold format_numeric_s.
  destruct (radix_of_ok (dclass sp) (not_char_class sp Hc)) as [radix [upper [Hr Hr2]]].
  wsimp. rewrite Hr. cbn [bind]. wsimp.
  destruct (uint_format_fits bits (abs_value bits v) radix upper Hr2 (abs_value_lt bits v)) as [txt [Ht _]].
  rewrite Ht. cbn [bind]. apply format_numeric_string_ok.
Qed.

Lemma format_char_ok sp ch : is_char_class sp = true -> field_good sp (outW (format_char sp ch)).
Proof.
  intros Hc. unfold format_char. fold (padded_spec sp).
  destruct (padded_spec sp) eqn:Ep.
  - right. auto.
  - left. destruct (ch <=? 0x10FFFF); reflexivity.
Qed.

Lemma format_double_ok sp r : spec_ints sp -> (forall p z c, r p z c <> []) ->
  outW (format_double sp r) = Ok tt.
Proof.
  intros [_ [Hp _]] Hr. unfold format_double. wsimp.
  assert (H1 : outW (if (0 <=? precision sp)%Z
                     then bindW (liftW (uint_format 32 (Z.to_N (precision sp)) 10 false))
                            (fun ptxt => if Nat.ltb 0 (length ptxt)
                                            && Nat.ltb (length ptxt + S (1 + (if always_signed sp then 1 else 0)) + 2) 32
                                         then retW tt else liftW (Abort AbFloatFmt))
                     else retW tt) = Ok tt).
  { destruct (0 <=? precision sp)%Z eqn:E; [|reflexivity].
    unfold int_range in Hp.
    destruct (uint_format_dec10 (Z.to_N (precision sp))) as [txt [Ht Hl]]; [lia|].
    wsimp. rewrite Ht. cbn [bind].
    assert (E2 : Nat.ltb 0 (length txt) && Nat.ltb (length txt + S (1 + (if always_signed sp then 1 else 0)) + 2) 32 = true).
    { destruct (always_signed sp); apply andb_true_iff; split; apply Nat.ltb_lt; lia. }
    rewrite E2. reflexivity. }
  rewrite H1. cbn [bind].
  specialize (Hr (always_signed sp) (precision sp) (fclass sp)).
  destruct (r (always_signed sp) (precision sp) (fclass sp)) as [|b t] eqn:Eo; [congruence|].
  assert (E3 : (Z.of_nat (length (b :: t)) <=? 0)%Z = false) by (simpl length; lia). rewrite E3.
  destruct (Z.of_nat (length (b :: t)) <? minimum_length sp)%Z; [|reflexivity].
  destruct (align sp); wsimp; reflexivity.
Qed.

(* every format_type overload: normal return, or the documented assertion on a padded {c} *)
Theorem format_type_ok sp x : spec_ints sp -> arg_ok x -> field_good sp (outW (format_type sp x)).
Proof.
  intros Hsp Hx. unfold format_type.
  destruct x as [sgn bits v|v|v|v|b|s| |r]; simpl in Hx.
  - destruct sgn; destruct (is_char_class sp) eqn:Ec;
      try (apply format_char_ok; exact Ec).
    + left. apply format_numeric_s_ok. exact Ec.
    + left. apply format_numeric_u_ok; [exact Ec|tauto].
  - destruct (is_char_class sp) eqn:Ec; [apply format_char_ok; exact Ec|left; apply format_numeric_s_ok; exact Ec].
  - destruct (is_char_class sp) eqn:Ec; [apply format_char_ok; exact Ec|left; apply format_numeric_s_ok; exact Ec].
  - destruct (is_char_class sp) eqn:Ec; [apply format_char_ok; exact Ec|left; apply format_numeric_u_ok; assumption].
  - left. destruct b; apply format_string_ok.
  - left. apply format_string_ok.
  - left. reflexivity.
  - left. apply format_double_ok; assumption.
Qed.

Section Fmt.
Variable fmt : list N.
Variable args : list arg.
Hypothesis Hargs : Forall arg_ok args.
Let a := cstr fmt.
Let len := length fmt.

(* how apply_format can end *)
Definition loop_good (r : outcome unit) : Prop :=
  r = Ok tt \/ r = Throw BadFormat \/ r = Throw OutOfRange \/
  (r = Abort AbCharPad /\
   exists m sp m', parse_format a m = Ok (sp, m') /\ is_char_class sp = true /\ padded_spec sp = true).

Lemma apply_loop_ok fuel : forall m index, (m <= len)%nat -> (len - m < fuel)%nat ->
  loop_good (outW (apply_loop fuel a args m index)).
Proof.
  induction fuel as [|f IH]; intros m index Hm Hf; [lia|].
  cbn [apply_loop]. rewrite outW_bind.
  destruct (next_format_ok fmt m Hm) as [m1 [more [Hn [Hm1 Hmore]]]]. fold a in Hn, Hmore. fold len in Hm1.
  rewrite Hn. cbn [bind].
  destruct more; cbn [negb]; [|left; reflexivity].
  specialize (Hmore eq_refl).
  pose proof (parse_format_ok fmt m1 Hmore) as Hp. fold a in Hp. fold len in Hp.
  rewrite outW_bind, outW_lift.
  destruct (parse_format a m1) as [[sp m2]|e|w|fl] eqn:Epf; cbn [bind]; simpl in Hp.
  2:{ destruct e; try contradiction. right; left; reflexivity. }
  2:{ contradiction. }
  2:{ contradiction. }
  destruct Hp as [Hm2 Hsp].
  set (fid := if (0 <=? arg_index sp)%Z then to_size (arg_index sp - 1) else index).
  destruct (N.of_nat (length args) <=? fid) eqn:Efid; [right; right; left; reflexivity|].
  destruct (nth_error args (N.to_nat fid)) as [x|] eqn:Ex.
  2:{ apply nth_error_None in Ex. lia. }
  assert (Hx : arg_ok x).
  { rewrite Forall_forall in Hargs. apply Hargs. eapply nth_error_In. exact Ex. }
  rewrite outW_bind.
  destruct (format_type_ok sp x Hsp Hx) as [Hok|[Hab [Hc Hpd]]].
  - rewrite Hok. cbn [bind]. apply IH; lia.
  - rewrite Hab. cbn [bind]. right; right; right. split; [reflexivity|]. exists m1, sp, m2. auto.
Qed.

Lemma apply_format0_ok : loop_good (outW (apply_format0 a)).
Proof.
  unfold apply_format0. rewrite outW_bind.
  destruct (next_format_ok fmt 0) as [m1 [more [Hn _]]]; [lia|]. fold a in Hn. rewrite Hn. cbn [bind].
  destruct more; [right; right; left; reflexivity|left; reflexivity].
Qed.

Theorem driver_ok : loop_good (outW (driver (Some fmt) args)).
Proof.
  pose proof apply_format0_ok as H0.
  assert (H1 : loop_good (outW (apply_loop (S (length a)) a args 0 0))).
  { pose proof (cstr_length fmt) as L. fold a in L. fold len in L. apply apply_loop_ok; lia. }
  unfold driver. fold a. clear Hargs. destruct args; assumption.
Qed.

End Fmt.
