(* Fmt/ShiftProofs.v — reading the format string at offset m + k is reading its suffix
   (skipn m fmt) at offset k; strtol from offset m is strtol on the suffix, shifted by m.
   These connect the index-based transcription (Fmt/Parser.v) with the list-based
   specification (Fmt/RenderSpec.v).                                                       *)
From Coq Require Import NArith ZArith List Bool Lia ZifyBool ZifyNat ZifyN.
From ST Require Import Base.Outcome Base.Units Fmt.Strtol Fmt.StrtolProofs.
Import ListNotations.
Local Open Scope N_scope.

Lemma at_shift (fmt : list N) m k : (m <= length fmt)%nat ->
  at_ (cstr fmt) (m + k) = at_ (cstr (skipn m fmt)) k.
Proof.
  intros Hm. unfold at_, cstr. f_equal.
  rewrite <- (firstn_skipn m fmt) at 1. rewrite <- app_assoc.
  rewrite nth_error_app2 by (rewrite firstn_length; lia).
  rewrite firstn_length. f_equal. lia.
Qed.

Lemma at_cons c t : at_ (cstr (c :: t)) 0 = Ok c.
Proof. reflexivity. Qed.
Lemma at_nil : at_ (cstr []) 0 = Ok 0.
Proof. reflexivity. Qed.

Lemma skipn_cons_nth : forall m (fmt : list N) c t, skipn m fmt = c :: t -> skipn (S m) fmt = t.
Proof.
  induction m as [|m IH]; intros fmt c t H.
  - simpl in H. subst fmt. reflexivity.
  - destruct fmt as [|x l]; [discriminate|]. cbn [skipn] in H. apply (IH l c t) in H. exact H.
Qed.

Lemma skipn_length_le (fmt : list N) m c t : skipn m fmt = c :: t -> (m < length fmt)%nat.
Proof.
  intros H. destruct (Nat.lt_ge_cases m (length fmt)); [assumption|].
  rewrite skipn_all2 in H by lia. discriminate.
Qed.

(* at the head of a suffix *)
Lemma at_suffix_head (fmt : list N) m : (m <= length fmt)%nat ->
  at_ (cstr fmt) m = match skipn m fmt with c :: _ => Ok c | [] => Ok 0 end.
Proof.
  intros Hm. replace m with (m + 0)%nat at 1 by lia. rewrite at_shift by exact Hm.
  destruct (skipn m fmt); reflexivity.
Qed.

Section Shift.
Variables a a' : list N.
Variable m : nat.
Hypothesis Hshift : forall k, at_ a (m + k) = at_ a' k.

(* more fuel does not change a result *)
Lemma skip_space_mono f : forall i j, skip_space f a i = Ok j -> forall f', (f <= f')%nat -> skip_space f' a i = Ok j.
Proof.
  induction f as [|f IH]; intros i j H f' Hf; [discriminate|].
  destruct f' as [|f']; [lia|]. cbn [skip_space] in *.
  destruct (at_ a i) as [c| | |]; cbn [bind] in *; try discriminate.
  destruct (isspace c); [apply (IH _ _ H); lia|exact H].
Qed.

Lemma digits_loop_mono f : forall i acc r, digits_loop f a i acc = Ok r -> forall f', (f <= f')%nat -> digits_loop f' a i acc = Ok r.
Proof.
  induction f as [|f IH]; intros i acc r H f' Hf; [discriminate|].
  destruct f' as [|f']; [lia|]. cbn [digits_loop] in *.
  destruct (at_ a i) as [c| | |]; cbn [bind] in *; try discriminate.
  destruct (isdigit c); [apply (IH _ _ _ H); lia|exact H].
Qed.

(* the same scan on the shifted array *)
Lemma skip_space_shift f : forall i j, skip_space f a' i = Ok j -> skip_space f a (m + i) = Ok (m + j)%nat.
Proof.
  induction f as [|f IH]; intros i j H; [discriminate|].
  cbn [skip_space] in *. rewrite Hshift.
  destruct (at_ a' i) as [c| | |]; cbn [bind] in *; try discriminate.
  destruct (isspace c).
  - replace (S (m + i)) with (m + S i)%nat by lia. apply IH. exact H.
  - inversion H. reflexivity.
Qed.

Lemma digits_loop_shift f : forall i acc v e, digits_loop f a' i acc = Ok (v, e) ->
  digits_loop f a (m + i) acc = Ok (v, (m + e)%nat).
Proof.
  induction f as [|f IH]; intros i acc v e H; [discriminate|].
  cbn [digits_loop] in *. rewrite Hshift.
  destruct (at_ a' i) as [c| | |]; cbn [bind] in *; try discriminate.
  destruct (isdigit c).
  - replace (S (m + i)) with (m + S i)%nat by lia. apply IH. exact H.
  - inversion H. reflexivity.
Qed.

(* strtol at offset m + n of a = strtol at offset n of the shifted array, end shifted by m *)
Lemma strtol10_shift n v e : (length a' <= length a)%nat ->
  strtol10 a' n = Ok (v, e) -> strtol10 a (m + n) = Ok (v, (m + e)%nat).
Proof.
  intros Hl H. unfold strtol10 in *.
  destruct (skip_space (S (length a')) a' n) as [i| | |] eqn:Es; cbn [bind] in H; try discriminate.
  rewrite (skip_space_mono _ _ _ (skip_space_shift _ _ _ Es) (S (length a))) by lia. cbn [bind].
  rewrite Hshift.
  destruct (at_ a' i) as [c| | |]; cbn [bind] in *; try discriminate.
  set (j := if (c =? 45) || (c =? 43) then S i else i) in *.
  assert (Hj : (if (c =? 45) || (c =? 43) then S (m + i) else (m + i)%nat) = (m + j)%nat).
  { subst j. destruct ((c =? 45) || (c =? 43)); lia. }
  rewrite Hj.
  destruct (digits_loop (S (length a')) a' j 0) as [[v0 e0]| | |] eqn:Ed; cbn [bind] in H; try discriminate.
  rewrite (digits_loop_mono _ _ _ _ (digits_loop_shift _ _ _ _ _ Ed) (S (length a))) by lia. cbn [bind].
  destruct (Nat.eqb e0 j) eqn:Eq.
  - assert (Eq2 : Nat.eqb (m + e0) (m + j) = true) by (apply Nat.eqb_eq; apply Nat.eqb_eq in Eq; lia).
    rewrite Eq2. inversion H. reflexivity.
  - assert (Eq2 : Nat.eqb (m + e0) (m + j) = false) by (apply Nat.eqb_neq; apply Nat.eqb_neq in Eq; lia).
    rewrite Eq2. inversion H. reflexivity.
Qed.

End Shift.

(* instantiated: the format string and one of its suffixes *)
Lemma strtol10_suffix (fmt : list N) m v e : (m <= length fmt)%nat ->
  strtol10 (cstr (skipn m fmt)) 0 = Ok (v, e) -> strtol10 (cstr fmt) m = Ok (v, (m + e)%nat).
Proof.
  intros Hm H. replace m with (m + 0)%nat at 1 by lia.
  apply (strtol10_shift (cstr fmt) (cstr (skipn m fmt)) m (fun k => at_shift fmt m k Hm)); [|exact H].
  unfold cstr. rewrite !app_length, skipn_length. simpl. lia.
Qed.
