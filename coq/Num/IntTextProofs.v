(* Num/IntTextProofs.v — C12: the integer printers give the canonical text, agree with each
   other, never fault; the canonical text parses back; the to_* flags are as specified.       *)
From Coq Require Import NArith ZArith List Bool Lia.
From ST Require Import Base.Outcome Base.Units Base.Sweep Num.Digits Num.DigitsProofs Num.Strtol Num.IntText.
Import ListNotations.
Local Open Scope N_scope.

(* ================================================================ magnitudes *)
Lemma pow2_N_Z bits : Z.of_N (2 ^ N.of_nat bits) = (2 ^ Z.of_nat bits)%Z.
Proof. rewrite N2Z.inj_pow, nat_N_Z. reflexivity. Qed.

Lemma pow2_split bits : (1 <= bits)%nat ->
  (2 ^ Z.of_nat bits = 2 * 2 ^ (Z.of_nat bits - 1))%Z /\ (0 < 2 ^ (Z.of_nat bits - 1))%Z.
Proof.
  intros Hb. split.
  - rewrite <- Z.pow_succ_r by lia. f_equal. lia.
  - apply Z.pow_pos_nonneg; lia.
Qed.

Lemma magnitude_abs bits v : (1 <= bits)%nat -> in_range_s bits v -> magnitude bits v = Z.abs_N v.
Proof.
  intros Hb Hr. unfold in_range_s in Hr.
  destruct (pow2_split bits Hb) as [E Hpos].
  pose proof (pow2_N_Z bits) as EN.
  unfold magnitude, neg_unsigned, cast_unsigned.
  set (M := (2 ^ Z.of_nat bits)%Z) in *. set (H := (2 ^ (Z.of_nat bits - 1))%Z) in *.
  set (NM := 2 ^ N.of_nat bits) in *.
  clearbody M H NM.
  destruct (Z.ltb_spec v 0) as [Hneg|Hpos'].
  - assert (Em : (v mod M = v + M)%Z).
    { symmetry. apply Z.mod_unique with (q := (-1)%Z); lia. }
    rewrite Em.
    assert (Hsub : NM - Z.to_N (v + M) = Z.abs_N v) by lia.
    rewrite Hsub. apply N.mod_small. lia.
  - rewrite Z.mod_small by lia. lia.
Qed.

Lemma magnitude_lt bits v : (1 <= bits)%nat -> in_range_s bits v -> magnitude bits v < 2 ^ N.of_nat bits.
Proof.
  intros Hb Hr. rewrite magnitude_abs by assumption. unfold in_range_s in Hr.
  destruct (pow2_split bits Hb) as [E Hpos].
  pose proof (pow2_N_Z bits) as EN. lia.
Qed.

(* ================================================================ printers *)
Theorem from_int_canonical bits v b up :
  (1 <= bits)%nat -> in_range_s bits v -> 2 <= b ->
  from_int bits v b up = Ok (int_text v b up).
Proof.
  intros Hb Hr Hrad. unfold from_int, mini_format_int_s, int_text.
  rewrite uint_format_ok by (assumption || apply magnitude_lt; assumption).
  rewrite magnitude_abs by assumption. cbn [bind].
  destruct (v <? 0)%Z; reflexivity.
Qed.

Theorem from_uint_canonical bits v b up :
  in_range_u bits v -> 2 <= b ->
  from_uint bits v b up = Ok (digits_text v b up).
Proof. intros Hr Hrad. apply uint_format_ok; assumption. Qed.

Theorem format_numeric_s_canonical bits c v :
  (1 <= bits)%nat -> in_range_s bits v ->
  format_numeric_s bits c v = Ok (int_text v (fst (radix_of c)) (snd (radix_of c))).
Proof.
  intros Hb Hr. unfold format_numeric_s, int_text.
  assert (Hrad : 2 <= fst (radix_of c)) by (destruct c; cbn; lia).
  destruct (radix_of c) as [radix upper]. cbn [fst snd] in *.
  rewrite uint_format_ok by (assumption || apply magnitude_lt; assumption).
  rewrite magnitude_abs by assumption. cbn [bind].
  destruct (v <? 0)%Z; reflexivity.
Qed.

Theorem format_numeric_u_canonical bits c v :
  in_range_u bits v ->
  format_numeric_u bits c v = Ok (digits_text v (fst (radix_of c)) (snd (radix_of c))).
Proof.
  intros Hr. unfold format_numeric_u.
  assert (Hrad : 2 <= fst (radix_of c)) by (destruct c; cbn; lia).
  destruct (radix_of c) as [radix upper]. cbn [fst snd] in *.
  apply uint_format_ok; assumption.
Qed.

Lemma in_range_s_mono b1 b2 v : (1 <= b1 <= b2)%nat -> in_range_s b1 v -> in_range_s b2 v.
Proof.
  unfold in_range_s. intros Hb Hr.
  assert (2 ^ (Z.of_nat b1 - 1) <= 2 ^ (Z.of_nat b2 - 1))%Z by (apply Z.pow_le_mono_r; lia).
  lia.
Qed.

Theorem stream_signed_canonical bits v :
  (1 <= bits)%nat -> in_range_s bits v ->
  stream_signed bits v = Ok (int_text v 10 false).
Proof.
  intros Hb Hr. unfold stream_signed, int_text.
  assert (Hr' : in_range_s (Nat.max bits 32) v) by (apply (in_range_s_mono bits); [lia|exact Hr]).
  assert (Hb' : (1 <= Nat.max bits 32)%nat) by lia.
  rewrite uint_format_ok by (lia || apply magnitude_lt; assumption).
  rewrite magnitude_abs by assumption. cbn [bind].
  destruct (v <? 0)%Z; reflexivity.
Qed.

Theorem stream_unsigned_canonical bits v :
  in_range_u bits v ->
  stream_unsigned bits v = Ok (digits_text v 10 false).
Proof.
  intros Hr. unfold stream_unsigned, in_range_u in *.
  destruct (Nat.ltb_spec bits 32) as [Hlt|Hge].
  - rewrite stream_signed_canonical; [| lia |].
    + unfold int_text. destruct (Z.ltb_spec (Z.of_N v) 0) as [|_]; [lia|].
      rewrite Zabs2N.id. reflexivity.
    + unfold in_range_s. change (Z.of_nat 32 - 1)%Z with 31%Z.
      assert (2 ^ N.of_nat bits <= 2 ^ 31) by (apply N.pow_le_mono_r; lia).
      assert (Z.of_N (2 ^ 31) = 2 ^ 31)%Z by reflexivity.
      lia.
  - apply uint_format_ok; [lia|exact Hr].
Qed.

(* the three printers agree on the bases ST::format knows *)
Theorem printers_agree_s bits c v :
  (1 <= bits)%nat -> in_range_s bits v ->
  format_numeric_s bits c v = from_int bits v (fst (radix_of c)) (snd (radix_of c)) /\
  (fst (radix_of c) = 10 -> stream_signed bits v = from_int bits v 10 false).
Proof.
  intros Hb Hr.
  assert (Hrad : 2 <= fst (radix_of c)) by (destruct c; cbn; lia).
  rewrite format_numeric_s_canonical, stream_signed_canonical by assumption.
  rewrite !from_int_canonical by (assumption || lia). auto.
Qed.

Theorem printers_agree_u bits c v :
  in_range_u bits v ->
  format_numeric_u bits c v = from_uint bits v (fst (radix_of c)) (snd (radix_of c)) /\
  (fst (radix_of c) = 10 -> stream_unsigned bits v = from_uint bits v 10 false).
Proof.
  intros Hr.
  assert (Hrad : 2 <= fst (radix_of c)) by (destruct c; cbn; lia).
  rewrite format_numeric_u_canonical, stream_unsigned_canonical by assumption.
  rewrite !from_uint_canonical by (assumption || lia). auto.
Qed.

(* no undefined behaviour / out-of-bounds / hang, including the most negative value *)
Theorem printers_no_fault_s bits c v b up :
  (1 <= bits)%nat -> in_range_s bits v -> 2 <= b ->
  is_ok (from_int bits v b up) = true /\ is_ok (format_numeric_s bits c v) = true /\
  is_ok (stream_signed bits v) = true.
Proof.
  intros Hb Hr Hrad.
  rewrite from_int_canonical, format_numeric_s_canonical, stream_signed_canonical by assumption.
  auto.
Qed.

Lemma min_in_range bits : (1 <= bits)%nat -> in_range_s bits (- 2 ^ (Z.of_nat bits - 1)).
Proof.
  intros Hb. unfold in_range_s. destruct (pow2_split bits Hb) as [_ Hpos]. lia.
Qed.

(* ================================================================ parsing canonical text back *)
Lemma digit_val_glyph_sweep :
  all_below 6 (fun d => if d <? 36 then
     match digit_val (digit_glyph true d), digit_val (digit_glyph false d) with
     | Some a, Some b => (a =? d) && (b =? d)
     | _, _ => false
     end else true) = true.
Proof. vm_compute. reflexivity. Qed.

Lemma digit_val_glyph up d : d < 36 -> digit_val (digit_glyph up d) = Some d.
Proof.
  intros Hd.
  assert (Hd' : d < 2 ^ N.of_nat 6) by (change (2 ^ N.of_nat 6) with 64; lia).
  pose proof (all_below_spec 6 _ digit_val_glyph_sweep d Hd') as E. cbv beta in E.
  destruct (N.ltb_spec d 36) as [_|]; [|lia].
  destruct (digit_val (digit_glyph true d)) as [a|] eqn:Ea; [|discriminate].
  destruct (digit_val (digit_glyph false d)) as [b|] eqn:Eb; [|discriminate].
  apply andb_true_iff in E. destruct E as [E1 E2].
  apply N.eqb_eq in E1, E2. subst.
  destruct up; assumption.
Qed.

Lemma digit_in_glyph base up d : d < base -> base <= 36 -> digit_in base (digit_glyph up d) = Some d.
Proof.
  intros Hd Hb. unfold digit_in. rewrite digit_val_glyph by lia.
  destruct (N.ltb_spec d base); [reflexivity|lia].
Qed.

Lemma digit_in_nul base : digit_in base 0 = None.
Proof. reflexivity. Qed.

Lemma scan_digits_glyphs base up : base <= 36 -> forall ds rest acc cnt,
  Forall (fun d => d < base) ds ->
  scan_digits base (map (digit_glyph up) ds ++ rest) acc cnt
  = scan_digits base rest (fold_left (fun a d => a * base + d) ds acc) (cnt + length ds)%nat.
Proof.
  intros Hb. induction ds as [|d ds IH]; intros rest acc cnt Hall.
  - cbn. rewrite Nat.add_0_r. reflexivity.
  - inversion Hall as [|? ? Hd Hds]; subst.
    cbn [map app scan_digits fold_left length].
    rewrite digit_in_glyph by assumption.
    rewrite IH by assumption. f_equal. lia.
Qed.

Definition glyph_plain (g d : N) : bool :=
  negb (isspace g) && negb (g =? 45) && negb (g =? 43) && (negb (g =? 48) || (d =? 0)).

Lemma glyph_not_special_sweep :
  all_below 6 (fun d => if d <? 36 then glyph_plain (digit_glyph true d) d && glyph_plain (digit_glyph false d) d
                        else true) = true.
Proof. vm_compute. reflexivity. Qed.

Lemma glyph_not_special up d : d < 36 ->
  isspace (digit_glyph up d) = false /\ (digit_glyph up d =? 45) = false /\
  (digit_glyph up d =? 43) = false /\ ((digit_glyph up d =? 48) = true -> d = 0).
Proof.
  intros Hd.
  assert (Hd' : d < 2 ^ N.of_nat 6) by (change (2 ^ N.of_nat 6) with 64; lia).
  pose proof (all_below_spec 6 _ glyph_not_special_sweep d Hd') as E. cbv beta in E.
  destruct (N.ltb_spec d 36) as [_|]; [|lia].
  apply andb_true_iff in E. destruct E as [Et Ef].
  assert (E : glyph_plain (digit_glyph up d) d = true) by (destruct up; assumption).
  unfold glyph_plain in E.
  repeat (apply andb_true_iff in E; destruct E as [E ?]).
  repeat match goal with H : negb _ = true |- _ => apply negb_true_iff in H end.
  repeat split; try assumption.
  intros E48. match goal with H : _ || _ = true |- _ => rewrite E48 in H; cbn in H; apply N.eqb_eq in H; exact H end.
Qed.

(* the C string  ['-'] digits NUL  in base b parses to (neg, m, everything) *)
Lemma parse_canonical (neg : bool) m b up rest :
  2 <= b -> b <= 36 ->
  strto_parse ((if neg then [45] else []) ++ digits_text m b up ++ 0 :: rest) b
  = Some (neg, m, length ((if neg then [45] else []) ++ digits_text m b up)).
Proof.
  intros Hb2 Hb36.
  pose proof (digits_lt m b Hb2) as Hlt.
  pose proof (digits_value m b Hb2) as Hval.
  pose proof (digits_canonical m b Hb2) as [_ Hcanon].
  unfold digits_text in *.
  assert (Hbase : base_ok b = true).
  { unfold base_ok. apply orb_true_iff. right. apply andb_true_iff. split; apply N.leb_le; lia. }
  assert (Hb0 : (b =? 0) = false) by (apply N.eqb_neq; lia).
  (* shape of the digit list *)
  remember (digits_of m b) as ds eqn:Eds.
  destruct ds as [|h t]; [exfalso; symmetry in Eds; exact (digits_nonempty m b Eds)|].
  pose proof (Forall_inv Hlt) as Hh. cbv beta in Hh.
  assert (Hh36 : h < 36) by lia.
  destruct (glyph_not_special up h Hh36) as (Hsp & H45 & H43 & H48).
  (* no 0x prefix: a leading '0' means the text is exactly "0" *)
  assert (Hno0x : has_0x (map (digit_glyph up) (h :: t) ++ 0 :: rest) = false).
  { cbn [map app]. destruct (digit_glyph up h =? 48) eqn:E48.
    - specialize (H48 eq_refl). subst h.
      destruct Hcanon as [Hc|(h' & t' & Hc & Hnz)].
      + inversion Hc; subst. cbn [map app has_0x].
        destruct rest as [|r0 rest']; reflexivity.
      + inversion Hc; subst. contradiction.
    - unfold has_0x. destruct (map (digit_glyph up) t ++ 0 :: rest) as [|x [|hh tl]]; try reflexivity.
      rewrite E48. reflexivity. }
  unfold strto_parse. rewrite Hbase. cbn [negb].
  destruct neg.
  - cbn [app skip_space]. change (isspace 45) with false. cbv iota.
    cbn [take_sign]. change (45 =? 45) with true. cbv iota.
    unfold take_prefix. rewrite Hno0x, andb_false_r, Hb0.
    rewrite scan_digits_glyphs by assumption.
    cbn [scan_digits]. rewrite digit_in_nul.
    fold (value_of (h :: t) b). rewrite Hval.
    cbn [length Nat.add]. rewrite map_length. cbn [length]. reflexivity.
  - cbn [app map skip_space]. rewrite Hsp.
    cbn [take_sign]. rewrite H45, H43.
    unfold take_prefix. change (digit_glyph up h :: map (digit_glyph up) t ++ 0 :: rest)
      with (map (digit_glyph up) (h :: t) ++ 0 :: rest).
    rewrite Hno0x, andb_false_r, Hb0.
    rewrite scan_digits_glyphs by assumption.
    cbn [scan_digits]. rewrite digit_in_nul.
    fold (value_of (h :: t) b). rewrite Hval.
    cbn [length Nat.add]. rewrite map_length. cbn [length]. reflexivity.
Qed.

Lemma narrow_s_id bits v : (1 <= bits)%nat -> in_range_s bits v -> narrow_s bits v = v.
Proof.
  intros Hb Hr. unfold narrow_s, in_range_s in *.
  destruct (pow2_split bits Hb) as [E Hpos].
  set (M := (2 ^ Z.of_nat bits)%Z) in *. set (H := (2 ^ (Z.of_nat bits - 1))%Z) in *. clearbody M H.
  assert (EH : (M / 2 = H)%Z) by (subst M; rewrite Z.mul_comm, Z.div_mul; lia).
  rewrite EH. rewrite Z.mod_small by lia. lia.
Qed.

Lemma int_text_nonempty v b up : int_text v b up <> [].
Proof.
  unfold int_text, digits_text. intros E. apply app_eq_nil in E. destruct E as [_ E].
  apply map_eq_nil in E. exact (digits_nonempty _ _ E).
Qed.

Lemma to_long_flags_nonempty text base : text <> [] ->
  to_long_flags text base =
  (fst (strtol_model 64 (text ++ [0]) base),
   negb (Nat.eqb (snd (strtol_model 64 (text ++ [0]) base)) 0),
   Nat.eqb (snd (strtol_model 64 (text ++ [0]) base)) (length text)).
Proof.
  intros Hne. destruct text as [|c t]; [contradiction|]. unfold to_long_flags.
  destruct (strtol_model 64 ((c :: t) ++ [0]) base). reflexivity.
Qed.

Lemma to_ulong_flags_nonempty text base : text <> [] ->
  to_ulong_flags text base =
  (fst (strtoul_model 64 (text ++ [0]) base),
   negb (Nat.eqb (snd (strtoul_model 64 (text ++ [0]) base)) 0),
   Nat.eqb (snd (strtoul_model 64 (text ++ [0]) base)) (length text)).
Proof.
  intros Hne. destruct text as [|c t]; [contradiction|]. unfold to_ulong_flags.
  destruct (strtoul_model 64 ((c :: t) ++ [0]) base). reflexivity.
Qed.

Lemma length_nonzero {A} (l : list A) : l <> [] -> Nat.eqb (length l) 0 = false.
Proof. destruct l; [contradiction|reflexivity]. Qed.

(* round trip, signed: any reader at least as wide as the value's type *)
Theorem round_trip_s sbits tbits v b up :
  (1 <= sbits <= tbits)%nat -> (tbits <= 64)%nat -> in_range_s sbits v -> 2 <= b -> b <= 36 ->
  to_signed tbits (int_text v b up) b = (v, true, true).
Proof.
  intros Hbits H64 Hr Hb2 Hb36.
  assert (Hr64 : in_range_s 64 v) by (apply (in_range_s_mono sbits); [lia|exact Hr]).
  assert (Hrt : in_range_s tbits v) by (apply (in_range_s_mono sbits); [lia|exact Hr]).
  pose proof (int_text_nonempty v b up) as Hne.
  unfold to_signed. rewrite to_long_flags_nonempty by exact Hne.
  unfold strtol_model.
  assert (Eparse : strto_parse (int_text v b up ++ [0]) b
                   = Some ((v <? 0)%Z, Z.abs_N v, length (int_text v b up))).
  { unfold int_text. rewrite <- app_assoc. apply parse_canonical; assumption. }
  rewrite Eparse.
  unfold in_range_s in Hr64. change (Z.of_nat 64 - 1)%Z with 63%Z in Hr64.
  change (2 ^ (64 - 1)) with 9223372036854775808.
  pose proof (length_nonzero _ Hne) as Elen.
  destruct (Z.ltb_spec v 0) as [Hneg|Hpos].
  - destruct (N.ltb_spec 9223372036854775808 (Z.abs_N v)) as [Hbig|_]; [lia|].
    cbn [fst snd]. rewrite Elen, Nat.eqb_refl. cbn [negb].
    replace (- Z.of_N (Z.abs_N v))%Z with v by lia.
    rewrite narrow_s_id by (lia || assumption). reflexivity.
  - destruct (N.leb_spec 9223372036854775808 (Z.abs_N v)) as [Hbig|_]; [lia|].
    cbn [fst snd]. rewrite Elen, Nat.eqb_refl. cbn [negb].
    replace (Z.of_N (Z.abs_N v)) with v by lia.
    rewrite narrow_s_id by (lia || assumption). reflexivity.
Qed.

Theorem round_trip_u sbits tbits v b up :
  (sbits <= tbits)%nat -> (tbits <= 64)%nat -> in_range_u sbits v -> 2 <= b -> b <= 36 ->
  to_unsigned tbits (digits_text v b up) b = (v, true, true).
Proof.
  intros Hbits H64 Hr Hb2 Hb36. unfold in_range_u in Hr.
  assert (Hrt : v < 2 ^ N.of_nat tbits).
  { apply N.lt_le_trans with (2 ^ N.of_nat sbits); [exact Hr|]. apply N.pow_le_mono_r; lia. }
  assert (Hr64 : v < 2 ^ 64).
  { apply N.lt_le_trans with (2 ^ N.of_nat tbits); [exact Hrt|].
    change 64 with (N.of_nat 64). apply N.pow_le_mono_r; lia. }
  assert (Hne : digits_text v b up <> []).
  { unfold digits_text. intros E. apply map_eq_nil in E. exact (digits_nonempty _ _ E). }
  unfold to_unsigned. rewrite to_ulong_flags_nonempty by exact Hne.
  unfold strtoul_model.
  assert (Eparse : strto_parse (digits_text v b up ++ [0]) b = Some (false, v, length (digits_text v b up))).
  { apply (parse_canonical false v b up []); assumption. }
  rewrite Eparse.
  destruct (N.leb_spec (2 ^ 64) v) as [Hbig|_]; [lia|].
  pose proof (length_nonzero _ Hne) as Elen.
  cbn [fst snd]. rewrite Elen, Nat.eqb_refl. cbn [negb].
  unfold narrow_u. rewrite N.mod_small by exact Hrt. reflexivity.
Qed.

(* ================================================================ the terminator stops every phase *)
Lemma skip_space_nul p r : ~ In 0 p -> forall n,
  skip_space (p ++ 0 :: r) n = (fst (skip_space p n) ++ 0 :: r, snd (skip_space p n))
  /\ ~ In 0 (fst (skip_space p n)).
Proof.
  induction p as [|c t IH]; intros Hin n.
  - cbn. auto.
  - cbn [app skip_space]. destruct (isspace c).
    + apply IH. intros H. apply Hin. right. exact H.
    + cbn [fst snd]. auto.
Qed.

Lemma take_sign_nul p r n : ~ In 0 p ->
  take_sign (p ++ 0 :: r) n =
    (fst (fst (take_sign p n)), snd (fst (take_sign p n)) ++ 0 :: r, snd (take_sign p n))
  /\ ~ In 0 (snd (fst (take_sign p n))).
Proof.
  intros Hin. destruct p as [|c t].
  - cbn. auto.
  - cbn [app take_sign]. destruct (c =? 45); [|destruct (c =? 43)]; cbn [fst snd]; split; try reflexivity;
      try (intros H; apply Hin; right; exact H); exact Hin.
Qed.

Lemma has_0x_nul p r : ~ In 0 p -> has_0x (p ++ 0 :: r) = has_0x p.
Proof.
  intros Hin. destruct p as [|z [|x [|h t]]]; cbn [app has_0x].
  - destruct r as [|a [|b r']]; reflexivity.
  - destruct r as [|a r']; [reflexivity|].
    change (0 =? 120) with false. change (0 =? 88) with false. cbn [orb]. rewrite andb_false_r. reflexivity.
  - change (is_hex_digit 0) with false. rewrite andb_false_r. reflexivity.
  - reflexivity.
Qed.

Lemma has_0x_len s : has_0x s = true -> exists z x t, s = z :: x :: t.
Proof. destruct s as [|z [|x [|h t]]]; try discriminate. eauto. Qed.

Lemma starts_with_0_nul p r : starts_with_0 (p ++ 0 :: r) = starts_with_0 p.
Proof. destruct p; reflexivity. Qed.

Lemma take_prefix_nul base p r n : ~ In 0 p ->
  take_prefix base (p ++ 0 :: r) n =
    (fst (fst (take_prefix base p n)), snd (fst (take_prefix base p n)) ++ 0 :: r, snd (take_prefix base p n))
  /\ ~ In 0 (snd (fst (take_prefix base p n))).
Proof.
  intros Hin. unfold take_prefix. rewrite has_0x_nul, starts_with_0_nul by exact Hin.
  destruct (((base =? 0) || (base =? 16)) && has_0x p) eqn:E.
  - apply andb_true_iff in E. destruct E as [_ E]. destruct (has_0x_len p E) as (z & x & t & ->).
    cbn [fst snd skipn app]. split; [reflexivity|].
    intros H. apply Hin. right. right. exact H.
  - destruct (base =? 0); cbn [fst snd]; auto.
Qed.

Lemma scan_digits_nul base p r : forall acc cnt,
  scan_digits base (p ++ 0 :: r) acc cnt = scan_digits base p acc cnt.
Proof.
  induction p as [|c t IH]; intros acc cnt.
  - reflexivity.
  - cbn [app scan_digits]. destruct (digit_in base c); [apply IH|reflexivity].
Qed.

Lemma strto_parse_nul p r base : ~ In 0 p -> strto_parse (p ++ 0 :: r) base = strto_parse p base.
Proof.
  intros Hin. unfold strto_parse. destruct (negb (base_ok base)); [reflexivity|].
  destruct (skip_space_nul p r Hin 0) as [E1 H1]. rewrite E1.
  destruct (skip_space p 0) as [s1 n1]. cbn [fst snd] in *.
  destruct (take_sign_nul s1 r n1 H1) as [E2 H2]. rewrite E2.
  destruct (take_sign s1 n1) as [[neg s2] n2]. cbn [fst snd] in *.
  destruct (take_prefix_nul base s2 r n2 H2) as [E3 H3]. rewrite E3.
  destruct (take_prefix base s2 n2) as [[b s3] n3]. cbn [fst snd] in *.
  rewrite scan_digits_nul. reflexivity.
Qed.

Lemma upto_nul_no_nul text : ~ In 0 (upto_nul text).
Proof.
  induction text as [|c t IH]; cbn [upto_nul]; [intros []|].
  destruct (N.eqb_spec c 0) as [|Hc]; [intros []|].
  intros [H|H]; [congruence|exact (IH H)].
Qed.

Lemma upto_nul_split text : exists r, text ++ [0] = upto_nul text ++ 0 :: r.
Proof.
  induction text as [|c t [r IH]]; cbn [upto_nul app].
  - exists []. reflexivity.
  - destruct (N.eqb_spec c 0) as [->|Hc].
    + exists (t ++ [0]). reflexivity.
    + exists r. cbn [app]. rewrite IH. reflexivity.
Qed.

Lemma strto_parse_cstr text base : strto_parse (text ++ [0]) base = strto_parse (upto_nul text) base.
Proof.
  destruct (upto_nul_split text) as [r E]. rewrite E.
  apply strto_parse_nul. apply upto_nul_no_nul.
Qed.

Lemma strto_parse_nil base : strto_parse [] base = None.
Proof.
  unfold strto_parse. destruct (negb (base_ok base)); [reflexivity|].
  cbn [skip_space take_sign]. unfold take_prefix. cbn [has_0x starts_with_0].
  rewrite andb_false_r. destruct (base =? 0); reflexivity.
Qed.

(* ---- the end offset never passes the end of the text it was given *)
Lemma skip_space_len s : forall n, (snd (skip_space s n) + length (fst (skip_space s n)) = n + length s)%nat.
Proof.
  induction s as [|c t IH]; intros n; cbn [skip_space]; [reflexivity|].
  destruct (isspace c); [rewrite IH; cbn [length]; lia|reflexivity].
Qed.

Lemma take_sign_len s n :
  (snd (take_sign s n) + length (snd (fst (take_sign s n))) = n + length s)%nat.
Proof.
  destruct s as [|c t]; cbn [take_sign]; [reflexivity|].
  destruct (c =? 45); [|destruct (c =? 43)]; cbn [fst snd length]; lia.
Qed.

Lemma take_prefix_len base s n :
  (snd (take_prefix base s n) + length (snd (fst (take_prefix base s n))) = n + length s)%nat.
Proof.
  unfold take_prefix. destruct (((base =? 0) || (base =? 16)) && has_0x s) eqn:E.
  - apply andb_true_iff in E. destruct E as [_ E]. destruct (has_0x_len s E) as (z & x & t & ->).
    cbn [fst snd skipn length]. lia.
  - destruct (base =? 0); reflexivity.
Qed.

Lemma scan_digits_len base s : forall acc cnt, (snd (scan_digits base s acc cnt) <= cnt + length s)%nat.
Proof.
  induction s as [|c t IH]; intros acc cnt; cbn [scan_digits length]; [cbn; lia|].
  destruct (digit_in base c); [specialize (IH (acc * base + n) (S cnt)); lia|cbn; lia].
Qed.

Lemma scan_digits_cnt_ge base s : forall acc cnt, (cnt <= snd (scan_digits base s acc cnt))%nat.
Proof.
  induction s as [|c t IH]; intros acc cnt; cbn [scan_digits]; [cbn; lia|].
  destruct (digit_in base c); [specialize (IH (acc * base + n) (S cnt)); lia|cbn; lia].
Qed.

Theorem strto_parse_end s base neg mag e :
  strto_parse s base = Some (neg, mag, e) -> (0 < e <= length s)%nat.
Proof.
  unfold strto_parse. destruct (negb (base_ok base)); [discriminate|].
  pose proof (skip_space_len s 0) as L1. destruct (skip_space s 0) as [s1 n1]. cbn [fst snd] in L1.
  pose proof (take_sign_len s1 n1) as L2. destruct (take_sign s1 n1) as [[ng s2] n2]. cbn [fst snd] in L2.
  pose proof (take_prefix_len base s2 n2) as L3. destruct (take_prefix base s2 n2) as [[b s3] n3]. cbn [fst snd] in L3.
  pose proof (scan_digits_len b s3 0 0) as L4.
  destruct (scan_digits b s3 0 0) as [m cnt]. cbn [snd] in L4.
  destruct cnt as [|cnt]; [discriminate|].
  intros E. inversion E; subst. lia.
Qed.

(* ================================================================ flags_spec *)
Lemma narrow_s_0 bits : narrow_s bits 0 = 0%Z.
Proof.
  unfold narrow_s.
  assert (0 < 2 ^ Z.of_nat bits)%Z by (apply Z.pow_pos_nonneg; lia).
  set (M := (2 ^ Z.of_nat bits)%Z) in *. clearbody M.
  destruct (Z.eq_dec M 1) as [->|Hne]; [reflexivity|].
  rewrite Z.add_0_l, Z.mod_small; [lia|].
  split; [apply Z.div_pos; lia|apply Z.div_lt; lia].
Qed.

Lemma narrow_u_0 bits : narrow_u bits 0 = 0.
Proof. unfold narrow_u. apply N.mod_0_l. apply N.pow_nonzero. lia. Qed.

Theorem to_signed_flags_spec bits text base :
  to_signed bits text base = to_signed_spec bits text base.
Proof.
  unfold to_signed, to_signed_spec, to_long_flags.
  destruct text as [|c t].
  - cbn [upto_nul]. unfold strtol_model. rewrite strto_parse_nil. reflexivity.
  - unfold strtol_model. rewrite strto_parse_cstr.
    destruct (strto_parse (upto_nul (c :: t)) base) as [[[neg mag] e]|].
    + destruct neg; destruct e; reflexivity.
    + reflexivity.
Qed.

Theorem to_unsigned_flags_spec bits text base :
  to_unsigned bits text base = to_unsigned_spec bits text base.
Proof.
  unfold to_unsigned, to_unsigned_spec, to_ulong_flags.
  destruct text as [|c t].
  - cbn [upto_nul]. unfold strtoul_model. rewrite strto_parse_nil.
    cbn [length Nat.ltb Nat.leb Nat.eqb]. rewrite narrow_u_0. reflexivity.
  - unfold strtoul_model. rewrite strto_parse_cstr.
    destruct (strto_parse (upto_nul (c :: t)) base) as [[[neg mag] e]|].
    + destruct (2 ^ 64 <=? mag); [|destruct neg]; destruct e; reflexivity.
    + reflexivity.
Qed.

Lemma strto_parse_only_nul base : strto_parse [0] base = None.
Proof. exact (eq_trans (strto_parse_nul [] [] base (fun H => H)) (strto_parse_nil base)). Qed.

(* the overloads without conversion_result return the same value *)
Theorem to_signed_plain_value bits text base :
  to_signed_plain bits text base = fst (fst (to_signed bits text base)).
Proof.
  unfold to_signed_plain, to_long_plain, to_signed, to_long_flags.
  destruct text as [|c t].
  - cbn [app]. unfold strtol_model.
    rewrite strto_parse_only_nul. reflexivity.
  - destruct (strtol_model 64 ((c :: t) ++ [0]) base) as [v e]. reflexivity.
Qed.

Theorem to_unsigned_plain_value bits text base :
  to_unsigned_plain bits text base = fst (fst (to_unsigned bits text base)).
Proof.
  unfold to_unsigned_plain, to_ulong_plain, to_unsigned, to_ulong_flags.
  destruct text as [|c t].
  - cbn [app]. unfold strtoul_model.
    rewrite strto_parse_only_nul. reflexivity.
  - destruct (strtoul_model 64 ((c :: t) ++ [0]) base) as [v e]. reflexivity.
Qed.

(* "" is a full match without ok; a full match has no embedded NUL *)
Theorem to_signed_empty bits base : to_signed bits [] base = (0%Z, false, true).
Proof. unfold to_signed, to_long_flags. rewrite narrow_s_0. reflexivity. Qed.
Theorem to_unsigned_empty bits base : to_unsigned bits [] base = (0, false, true).
Proof. unfold to_unsigned, to_ulong_flags. rewrite narrow_u_0. reflexivity. Qed.

Theorem full_match_no_nul bits text base v ok :
  to_signed bits text base = (v, ok, true) -> upto_nul text = text.
Proof.
  rewrite to_signed_flags_spec. unfold to_signed_spec, strtol_model.
  destruct (strto_parse (upto_nul text) base) as [[[neg mag] e]|] eqn:Ep.
  - apply strto_parse_end in Ep.
    assert (Hlen : forall t, (length (upto_nul t) <= length t)%nat).
    { induction t as [|c t IH]; cbn [upto_nul length]; [lia|]. destruct (c =? 0); cbn [length]; lia. }
    assert (Heq : forall t, length (upto_nul t) = length t -> upto_nul t = t).
    { induction t as [|c t IH]; cbn [upto_nul length]; [reflexivity|].
      destruct (c =? 0); cbn [length]; intros E; [discriminate|]. f_equal. apply IH. lia. }
    destruct neg; cbn [fst snd]; intros E; inversion E as [[E1 E2 E3]];
      apply Nat.eqb_eq in E3; apply Heq; specialize (Hlen text); lia.
  - intros E. inversion E as [[E1 E2 E3]].
    destruct text; [reflexivity|discriminate].
Qed.
