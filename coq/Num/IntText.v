(* Num/IntText.v — integer <-> text, transcribed (C12).  MODEL + the short Spec-level definitions.

   printing   _ST_PRIVATE::mini_format_int_s / _u   (st_string_priv.h)   = ST::string::from_int / from_uint
              string_stream::operator<<(int / unsigned / long / unsigned long / long long / unsigned long long)
              _ST_PRIVATE::format_numeric_s / _u  (st_format_priv.h): radix selection + digits + '-' only;
              width/pad/prefix/'+' are C11's (Fmt/Render.v)
   parsing    ST::string::to_long / to_long_long / to_short / to_int / to_ulong / to_ulong_long /
              to_ushort / to_uint (with and without conversion_result), to_bool

   Widths are `bits : nat` (numeric_limits<uint_T>::digits: 8, 16, 32, 64); signed values are Z,
   unsigned values and bytes are N.  long and long long are both 64 bits on this platform (LP64,
   static_assert'ed in harness/h_num.cpp).

   REPAIRED behaviour is modelled for the magnitude of negative values in format_numeric_s and
   string_stream << int/long/long long: unsigned negation (as mini_format_int_s always did), not
   std::abs (UB on the most negative value).                                                     *)
From Coq Require Import NArith ZArith List Bool Lia.
From ST Require Import Base.Outcome Base.Units Num.Digits Num.Strtol.
Import ListNotations.
Local Open Scope N_scope.
Local Open Scope outcome_scope.

(* ---------------------------------------------------------------- printing *)

(* static_cast<uint_T>(value) *)
Definition cast_unsigned (bits : nat) (v : Z) : N := Z.to_N (v mod 2 ^ Z.of_nat bits).
(* 0 - u computed in uint_T (for uint_T narrower than int: computed in int, converted back to
   uint_T by the initialisation of abs_value — the same value) *)
Definition neg_unsigned (bits : nat) (u : N) : N := (2 ^ N.of_nat bits - u) mod 2 ^ N.of_nat bits.
(* value < 0 ? 0 - static_cast<uint_T>(value) : static_cast<uint_T>(value) *)
Definition magnitude (bits : nat) (v : Z) : N :=
  if (v <? 0)%Z then neg_unsigned bits (cast_unsigned bits v) else cast_unsigned bits v.

(* mini_format_int_s<int_T>(radix, upper_case, value): format, allocate size(+1), copy, '-' in front *)
Definition mini_format_int_s (bits : nat) (radix : N) (upper : bool) (v : Z) : outcome (list N) :=
  ds <- uint_format bits (magnitude bits v) radix upper ;;
  if (v <? 0)%Z then Ok (45 :: ds) else Ok ds.

Definition mini_format_int_u (bits : nat) (radix : N) (upper : bool) (v : N) : outcome (list N) :=
  uint_format bits v radix upper.

(* ST::string::from_int(T, base, upper) / from_uint: from_validated(mini_format_int_s|u) — ASCII, no validation *)
Definition from_int (bits : nat) (v : Z) (base : N) (upper : bool) : outcome (list N) :=
  mini_format_int_s bits base upper v.
Definition from_uint (bits : nat) (v : N) (base : N) (upper : bool) : outcome (list N) :=
  mini_format_int_u bits base upper v.

(* string_stream << num.  There are overloads for int, long, long long (and unsigned); short and
   unsigned short both PROMOTE to int and take operator<<(int).  The formatter runs first, then
   '-' is appended, then the digits. *)
Definition stream_signed (bits : nat) (v : Z) : outcome (list N) :=
  let w := Nat.max bits 32 in
  ds <- uint_format w (magnitude w v) 10 false ;;
  Ok (if (v <? 0)%Z then 45 :: ds else ds).

Definition stream_unsigned (bits : nat) (v : N) : outcome (list N) :=
  if Nat.ltb bits 32 then stream_signed 32 (Z.of_N v)      (* unsigned short -> int *)
  else uint_format bits v 10 false.

(* digit classes handled by format_numeric_s/_u (digit_char goes to format_char: C11) *)
Inductive digit_class := DcDefault | DcDec | DcHex | DcHexUpper | DcOct | DcBin.

Definition radix_of (c : digit_class) : N * bool :=
  match c with
  | DcHexUpper => (16, true)
  | DcHex => (16, false)
  | DcOct => (8, false)
  | DcBin => (2, false)
  | DcDec | DcDefault => (10, false)
  end.

(* ST::format("{<class>}", value) with no other flag: '-' for negatives, then formatter.text() *)
Definition format_numeric_s (bits : nat) (c : digit_class) (v : Z) : outcome (list N) :=
  let '(radix, upper) := radix_of c in
  ds <- uint_format bits (magnitude bits v) radix upper ;;
  Ok (if (v <? 0)%Z then 45 :: ds else ds).

Definition format_numeric_u (bits : nat) (c : digit_class) (v : N) : outcome (list N) :=
  let '(radix, upper) := radix_of c in
  uint_format bits v radix upper.

(* ---------------------------------------------------------------- parsing *)

(* static_cast<short/int>(long) — modular (C++20) *)
Definition narrow_s (bits : nat) (z : Z) : Z :=
  let m := (2 ^ Z.of_nat bits)%Z in ((z + m / 2) mod m - m / 2)%Z.
Definition narrow_u (bits : nat) (n : N) : N := n mod 2 ^ N.of_nat bits.

(* long to_long(conversion_result &result, int base): (value, ok, full_match).
   strtol is handed c_str() = text ++ [0]. *)
Definition to_long_flags (text : list N) (base : N) : Z * bool * bool :=
  match text with
  | [] => (0%Z, false, true)                                  (* if (empty()) { flags = full_match; return 0; } *)
  | _ =>
      let '(v, e) := strtol_model 64 (text ++ [0]) base in
      (v, negb (Nat.eqb e 0), Nat.eqb e (length text))       (* endp != c_str() ; endp == c_str() + size() *)
  end.
(* long to_long(int base): strtol(c_str(), nullptr, base) *)
Definition to_long_plain (text : list N) (base : N) : Z := fst (strtol_model 64 (text ++ [0]) base).

Definition to_ulong_flags (text : list N) (base : N) : N * bool * bool :=
  match text with
  | [] => (0, false, true)
  | _ =>
      let '(v, e) := strtoul_model 64 (text ++ [0]) base in
      (v, negb (Nat.eqb e 0), Nat.eqb e (length text))
  end.
Definition to_ulong_plain (text : list N) (base : N) : N := fst (strtoul_model 64 (text ++ [0]) base).

(* to_short / to_int = static_cast<T>(to_long(...)); to_long / to_long_long: bits = 64 *)
Definition to_signed (bits : nat) (text : list N) (base : N) : Z * bool * bool :=
  let '(v, ok, full) := to_long_flags text base in (narrow_s bits v, ok, full).
Definition to_signed_plain (bits : nat) (text : list N) (base : N) : Z :=
  narrow_s bits (to_long_plain text base).
Definition to_unsigned (bits : nat) (text : list N) (base : N) : N * bool * bool :=
  let '(v, ok, full) := to_ulong_flags text base in (narrow_u bits v, ok, full).
Definition to_unsigned_plain (bits : nat) (text : list N) (base : N) : N :=
  narrow_u bits (to_ulong_plain text base).

(* to_bool(result): compare_i("true") / compare_i("false") (ASCII case fold, sizes equal), else to_int != 0 *)
Definition fold_lower (c : N) : N := if (65 <=? c) && (c <=? 90) then c + 32 else c.
Fixpoint list_eqb (a b : list N) : bool :=
  match a, b with
  | [], [] => true
  | x :: a', y :: b' => (x =? y) && list_eqb a' b'
  | _, _ => false
  end.
Definition eq_ci (text lit : list N) : bool := list_eqb (map fold_lower text) lit.
Definition lit_true : list N := [116; 114; 117; 101].
Definition lit_false : list N := [102; 97; 108; 115; 101].
Definition to_bool_flags (text : list N) : bool * bool * bool :=
  if eq_ci text lit_true then (true, true, true)
  else if eq_ci text lit_false then (false, true, true)
  else let '(v, ok, full) := to_signed 32 text 0 in (negb (v =? 0)%Z, ok, full).
Definition to_bool_plain (text : list N) : bool :=
  if eq_ci text lit_true then true
  else if eq_ci text lit_false then false
  else negb (to_signed_plain 32 text 0 =? 0)%Z.

(* ---------------------------------------------------------------- Spec level *)

(* the canonical text of an integer: '-' for negatives, digits without leading zeros *)
Definition int_text (v : Z) (b : N) (upper : bool) : list N :=
  (if (v <? 0)%Z then [45] else []) ++ digits_text (Z.abs_N v) b upper.

(* what the property says about to_*: the C library's value on the C string, narrowed;
   ok = something consumed; full_match = everything consumed *)
Definition to_signed_spec (bits : nat) (text : list N) (base : N) : Z * bool * bool :=
  let '(v, e) := strtol_model 64 (upto_nul text) base in
  (narrow_s bits v, Nat.ltb 0 e, Nat.eqb e (length text)).
Definition to_unsigned_spec (bits : nat) (text : list N) (base : N) : N * bool * bool :=
  let '(v, e) := strtoul_model 64 (upto_nul text) base in
  (narrow_u bits v, Nat.ltb 0 e, Nat.eqb e (length text)).

Definition in_range_s (bits : nat) (v : Z) : Prop :=
  (- 2 ^ (Z.of_nat bits - 1) <= v < 2 ^ (Z.of_nat bits - 1))%Z.
Definition in_range_u (bits : nat) (v : N) : Prop := v < 2 ^ N.of_nat bits.
