(* Num/FloatWrap.v — the floating-point wrappers (C13), transcribed.  MODEL + Spec-level definitions.

     format_type(const format_spec&, format_writer&, double)      include/st_formatter.h
     _ST_PRIVATE::format_double, ST::float_formatter<T>::format    include/st_format_numeric.h
     mini_format_float -> ST::string::from_float / from_double     include/st_string_priv.h, st_string.h
     string_stream::operator<<(float / double)                     include/st_stringstream.h
     ST::string::to_float / to_double (with and without conversion_result)

   Only the wrapper is logic; the digits are the C library's.  snprintf("%[+][.p]{e,E,f,g,F,G}"),
   strtod and strtof are NOT modelled: they are the Section variables `render`, `scan`, `scanf`
   about which NOTHING is assumed (not even that a rendering is non-empty or that an end offset
   lies inside the text).  A double is its 64-bit pattern (N); a float its 32-bit pattern.

   REPAIRED behaviour is modelled: format_type(double) re-renders into a heap buffer of exactly
   the reported size when the rendering does not fit out_buffer[64] (it no longer aborts);
   float_formatter's buffer has max_exponent10 + 10 = 318 cells.                              *)
From Coq Require Import NArith ZArith List Bool Lia.
From ST Require Import Base.Outcome Base.Units Num.Digits Num.Strtol.
Import ListNotations.
Local Open Scope N_scope.
Local Open Scope outcome_scope.

Inductive float_class := FcDefault | FcFixed | FcExp | FcExpUpper.
Inductive alignment := AlDefault | AlLeft | AlRight.

(* the fields of ST::format_spec that format_type(double) reads *)
Record fspec := {
  fs_min_length : Z;          (* int minimum_length *)
  fs_precision : Z;           (* int precision, -1 = none *)
  fs_alignment : alignment;
  fs_float_class : float_class;
  fs_pad : N;                 (* char pad, 0 = default *)
  fs_always_signed : bool
}.

Definition class_letter (c : float_class) : N :=
  match c with
  | FcExp => 101         (* 'e' *)
  | FcExpUpper => 69     (* 'E' *)
  | FcFixed => 102       (* 'f' *)
  | FcDefault => 103     (* 'g' *)
  end.

(* ---- a char array whose cells start out indeterminate *)
Definition cells := list (option N).
Definition put (b : cells) (i : nat) (c : N) : outcome cells :=
  match upd b i (Some c) with Some b' => Ok b' | None => Fault OOBWrite end.
(* std::char_traits<char>::move(dest + i, src, size) *)
Fixpoint put_all (b : cells) (i : nat) (l : list N) : outcome cells :=
  match l with
  | [] => Ok b
  | c :: t => b' <- put b i c ;; put_all b' (S i) t
  end.
(* what a function taking `const char *` reads: the cells before the first NUL *)
Fixpoint read_cstr (b : cells) : outcome (list N) :=
  match b with
  | [] => Fault OOBRead                       (* no terminator inside the array *)
  | None :: _ => Fault Unwritten              (* indeterminate cell read *)
  | Some c :: t => if c =? 0 then Ok [] else r <- read_cstr t ;; Ok (c :: r)
  end.

Definition format_buffer_size : nat := 32.    (* char format_buffer[32] *)
Definition out_buffer_size : nat := 64.       (* char out_buffer[64] *)
Definition float_formatter_buf : nat := 318.  (* char m_buffer[numeric_limits<double>::max_exponent10 + 10] *)
Definition int_max : Z := 2147483647.

(* the printf format assembled index by index in format_buffer *)
Definition assemble (sp : fspec) : outcome (list N) :=
  let b0 : cells := repeat None format_buffer_size in
  b1 <- put b0 0 37 ;;                                             (* format_buffer[end++] = '%' *)
  '(b2, e2) <- (if fs_always_signed sp
                then b <- put b1 1 43 ;; Ok (b, 2%nat)             (* '+' *)
                else Ok (b1, 1%nat)) ;;
  '(b3, e3) <- (if (0 <=? fs_precision sp)%Z
                then
                  b <- put b2 e2 46 ;;                             (* '.' *)
                  let e := S e2 in
                  (* ST::uint_formatter<unsigned int> prec; prec.format(format.precision, 10) *)
                  ds <- uint_format 32 (Z.to_N (fs_precision sp mod 4294967296)) 10 false ;;
                  b' <- put_all b e ds ;;                          (* move(format_buffer + end, prec.text(), prec.size()) *)
                  if negb (Nat.ltb 0 (length ds) && Nat.ltb (length ds + e + 2) format_buffer_size)
                  then Abort AbFloatFmt                            (* "Not enough space for format string" *)
                  else Ok (b', (e + length ds)%nat)
                else Ok (b2, e2)) ;;
  b4 <- put b3 e3 (class_letter (fs_float_class sp)) ;;
  b5 <- put b4 (S e3) 0 ;;
  read_cstr b5.

Section Libc.
  (* snprintf(buf, n, fmt, double): the complete rendering for the format `fmt` (bytes before
     its NUL) and the value with bit pattern `v` *)
  Variable render : list N -> N -> list N.
  (* strtod / strtof on a C string: (bit pattern of the value, end offset) *)
  Variable scan : list N -> N * nat.
  Variable scanf : list N -> N * nat.

  (* snprintf(array of `ncells` cells, size argument, fmt, v):
     writes min(len, size-1) characters and a NUL; returns len (negative when len > INT_MAX).
     Result: (characters stored before the NUL, return value). *)
  Definition snprintf (ncells size : nat) (fmt : list N) (v : N) : outcome (list N * Z) :=
    let r := render fmt v in
    let stored := firstn (Nat.pred size) r in
    if Nat.eqb size 0 then Ok ([], Z.of_nat (length r))
    else if Nat.ltb ncells (S (length stored)) then Fault OOBWrite
    else if (int_max <? Z.of_nat (length r))%Z then Ok (stored, (-1)%Z)
    else Ok (stored, Z.of_nat (length r)).

  (* output.append(buffer, n) reads n stored characters *)
  Definition take_text (stored : list N) (n : Z) : outcome (list N) :=
    if (Z.of_nat (length stored) <? n)%Z then Fault OOBRead else Ok (firstn (Z.to_nat n) stored).

  (* format_type(format, output, double value): what is appended to the output *)
  Definition format_type_double (sp : fspec) (v : N) : outcome (list N) :=
    fmt <- assemble sp ;;
    let pad := if fs_pad sp =? 0 then 32 else fs_pad sp in
    '(stored, fsize) <- snprintf out_buffer_size out_buffer_size fmt v ;;
    if (fsize <=? 0)%Z then Abort AbOther                     (* ST_ASSERT(format_size > 0, ...) *)
    else
      '(stored', fsize') <-
         (if (Z.of_nat out_buffer_size <=? fsize)%Z then
            (* REPAIRED: big.allocate(format_size) [format_size + 1 cells];
               format_size = snprintf(big.data(), big.size() + 1, fmt, value);
               ST_ASSERT(format_size == big.size(), "Format buffer too small") *)
            let bsize := Z.to_nat fsize in
            '(st2, fs2) <- snprintf (S bsize) (S bsize) fmt v ;;
            if negb (fs2 =? fsize)%Z then Abort AbFloatBuf else Ok (st2, fs2)
          else Ok (stored, fsize)) ;;
      text <- take_text stored' fsize' ;;
      if (fsize' <? fs_min_length sp)%Z then
        let k := Z.to_nat (fs_min_length sp - fsize') in
        match fs_alignment sp with
        | AlLeft => Ok (text ++ repeat pad k)
        | _ => Ok (repeat pad k ++ text)
        end
      else Ok text.

  (* _ST_PRIVATE::format_double(buffer, size, value, format) on an array of `ncells` cells *)
  Definition format_double (ncells size : nat) (v : N) (letter : N) : outcome (list N) :=
    '(stored, fsize) <- snprintf ncells size [37; letter] v ;;
    if (fsize <=? 0)%Z then Abort AbOther
    else if negb (fsize <? Z.of_nat size)%Z then Abort AbFloatBuf      (* "Format buffer too small" *)
    else take_text stored fsize.

  Definition valid_float_letter (c : N) : bool :=
    existsb (N.eqb c) [101; 102; 103; 69; 70; 71].                     (* "efgEFG" *)

  (* float_formatter<T>::format(value, format); text() / size() *)
  Definition float_formatter_format (v : N) (letter : N) : outcome (list N) :=
    if negb (valid_float_letter letter) then Throw BadFormat
    else format_double float_formatter_buf float_formatter_buf v letter.

  (* ST::string::from_double(value, format) / from_float (the float is widened by the caller) *)
  Definition from_double (v : N) (letter : N) : outcome (list N) := float_formatter_format v letter.
  (* string_stream << double / float *)
  Definition stream_double (v : N) : outcome (list N) := float_formatter_format v 103.

  (* double to_double(conversion_result &): (value bits, ok, full_match) *)
  Definition to_double_flags (text : list N) : N * bool * bool :=
    match text with
    | [] => (0, false, true)
    | _ => let '(v, e) := scan (upto_nul text) in (v, negb (Nat.eqb e 0), Nat.eqb e (length text))
    end.
  Definition to_double_plain (text : list N) : N := fst (scan (upto_nul text)).
  Definition to_float_flags (text : list N) : N * bool * bool :=
    match text with
    | [] => (0, false, true)
    | _ => let '(v, e) := scanf (upto_nul text) in (v, negb (Nat.eqb e 0), Nat.eqb e (length text))
    end.
  Definition to_float_plain (text : list N) : N := fst (scanf (upto_nul text)).

  (* ---------------------------------------------------------------- Spec level *)

  (* the printf conversion the property names *)
  Definition printf_format (sp : fspec) : list N :=
    [37] ++ (if fs_always_signed sp then [43] else [])
         ++ (if (0 <=? fs_precision sp)%Z then 46 :: digits_text (Z.to_N (fs_precision sp)) 10 false else [])
         ++ [class_letter (fs_float_class sp)].

  (* the rendering padded to the field width; never cut *)
  Definition pad_to_width (sp : fspec) (r : list N) : list N :=
    let pad := if fs_pad sp =? 0 then 32 else fs_pad sp in
    let k := Z.to_nat (fs_min_length sp - Z.of_nat (length r)) in
    match fs_alignment sp with
    | AlLeft => r ++ repeat pad k
    | _ => repeat pad k ++ r
    end.

  Definition format_double_spec (sp : fspec) (v : N) : list N :=
    pad_to_width sp (render (printf_format sp) v).

  Definition to_double_spec (text : list N) : N * bool * bool :=
    match text with
    | [] => (0, false, true)
    | _ => (fst (scan (upto_nul text)), Nat.ltb 0 (snd (scan (upto_nul text))),
            Nat.eqb (snd (scan (upto_nul text))) (length text))
    end.
End Libc.
