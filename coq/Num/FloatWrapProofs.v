(* Num/FloatWrapProofs.v — C13, for EVERY `render`, `scan`, `scanf` (nothing is assumed about libc):
     assemble_canonical      the 32-byte buffer receives exactly  % [+] [. decimal(precision)] letter  NUL
                             for every int precision; the ST_ASSERT at st_formatter.h:449 is dead; no
                             write leaves the buffer; no indeterminate cell is read
     format_type_double_eq   format_type(double) = pad_to_width (render (printf_format spec) v), aborting
                             exactly when snprintf's int result is <= 0 (empty or > INT_MAX rendering)
     from_double_eq          float_formatter: letter validation, Abort FloatBuf exactly from 318 bytes on
     to_double_eq            flags logic                                                         *)
From Coq Require Import NArith ZArith List Bool Lia.
From ST Require Import Base.Outcome Base.Units Num.Digits Num.DigitsProofs Num.Strtol Num.FloatWrap.
Import ListNotations.
Local Open Scope N_scope.

(* ================================================================ the char array *)
Definition bufst (w : list N) (n : nat) : cells := map Some w ++ repeat None (n - length w).

Lemma upd_middle {A} (l1 : list A) x y l2 : upd (l1 ++ x :: l2) (length l1) y = Some (l1 ++ y :: l2).
Proof.
  induction l1 as [|h t IH]; [reflexivity|].
  cbn [app length upd]. rewrite IH. reflexivity.
Qed.

Lemma put_bufst w n c i : i = length w -> (length w < n)%nat ->
  put (bufst w n) i c = Ok (bufst (w ++ [c]) n).
Proof.
  intros -> Hlt. unfold put, bufst.
  replace (n - length w)%nat with (S (n - S (length w))) by lia. cbn [repeat].
  rewrite <- (map_length Some w) at 2. rewrite upd_middle.
  rewrite map_app, <- app_assoc, app_length. cbn [map app length].
  replace (n - (length w + 1))%nat with (n - S (length w))%nat by lia. reflexivity.
Qed.

Lemma put_all_bufst l : forall w n i, i = length w -> (length w + length l <= n)%nat ->
  put_all (bufst w n) i l = Ok (bufst (w ++ l) n).
Proof.
  induction l as [|c t IH]; intros w n i Hi Hle.
  - cbn [put_all]. rewrite app_nil_r. reflexivity.
  - cbn [put_all length] in *. rewrite (put_bufst w n c i Hi) by lia. cbn [bind].
    rewrite IH.
    + rewrite <- app_assoc. reflexivity.
    + rewrite app_length. cbn [length]. lia.
    + rewrite app_length. cbn [length]. lia.
Qed.

Lemma read_cstr_terminated w rest : ~ In 0 w -> read_cstr (map Some w ++ Some 0 :: rest) = Ok w.
Proof.
  induction w as [|c t IH]; intros Hin; [reflexivity|].
  cbn [map app read_cstr].
  destruct (N.eqb_spec c 0) as [->|_]; [exfalso; apply Hin; left; reflexivity|].
  rewrite IH; [reflexivity|]. intros H. apply Hin. right. exact H.
Qed.

Lemma read_cstr_bufst w n : ~ In 0 w -> read_cstr (bufst (w ++ [0]) n) = Ok w.
Proof.
  intros Hin. unfold bufst. rewrite map_app, <- app_assoc. cbn [map app].
  apply read_cstr_terminated. exact Hin.
Qed.

(* ================================================================ the precision digits *)
Lemma glyph_ge_48 up d : 48 <= digit_glyph up d.
Proof. unfold digit_glyph. destruct (d <? 10); [lia|]. destruct up; lia. Qed.

Lemma digits_text_no_nul v b up : ~ In 0 (digits_text v b up).
Proof.
  unfold digits_text. intros H. apply in_map_iff in H. destruct H as (d & E & _).
  pose proof (glyph_ge_48 up d). lia.
Qed.

Lemma precision_digits_length p : p < 2147483648 ->
  (1 <= length (digits_text p 10 false) <= 10)%nat.
Proof.
  intros Hp. rewrite digits_text_length. split.
  - pose proof (digits_nonempty p 10). destruct (digits_of p 10); [contradiction|cbn; lia].
  - apply (digits_length_le 10); [lia|].
    change (10 ^ N.of_nat 10) with 10000000000. lia.
Qed.

Definition int_precision (sp : fspec) : Prop :=
  (- 2147483648 <= fs_precision sp < 2147483648)%Z.

Lemma class_letter_nz c : class_letter c <> 0.
Proof. destruct c; discriminate. Qed.

(* ================================================================ assemble *)
Theorem assemble_canonical sp : int_precision sp ->
  assemble sp = Ok (printf_format sp) /\ (length (printf_format sp) < format_buffer_size)%nat.
Proof.
  intros Hp. unfold int_precision in Hp. unfold assemble, printf_format, format_buffer_size.
  assert (Hl : class_letter (fs_float_class sp) <> 0) by apply class_letter_nz.
  set (letter := class_letter (fs_float_class sp)) in *. clearbody letter.
  (* the first one or two cells, written at constant indices *)
  assert (E0 : put (repeat None 32) 0 37 = Ok (bufst [37] 32)) by reflexivity.
  rewrite E0. cbn [bind].
  assert (Hsign : exists w,
     (if fs_always_signed sp then bind (put (bufst [37] 32) 1 43) (fun b => Ok (b, 2%nat))
      else Ok (bufst [37] 32, 1%nat)) = Ok (bufst w 32, length w)
     /\ w = [37] ++ (if fs_always_signed sp then [43] else []) /\ ~ In 0 w /\ (length w <= 2)%nat).
  { destruct (fs_always_signed sp).
    - exists [37; 43]. repeat split; [|cbn; lia]. intros [H|[H|[]]]; discriminate.
    - exists [37]. repeat split; [|cbn; lia]. intros [H|[]]; discriminate. }
  destruct Hsign as (w & Es & Ew & Hw0 & Hwl). rewrite Es. cbn [bind].
  clear Es E0.
  destruct (Z.leb_spec 0 (fs_precision sp)) as [Hnn|Hneg].
  - (* with a precision *)
    rewrite Z.mod_small by lia.
    set (p := Z.to_N (fs_precision sp)).
    assert (Hp31 : p < 2147483648) by (subst p; lia).
    rewrite (put_bufst w 32 46 (length w) eq_refl) by lia. cbn [bind].
    rewrite uint_format_ok by (try lia; change (2 ^ N.of_nat 32) with 4294967296; lia). cbn [bind].
    pose proof (precision_digits_length p Hp31) as Hdl.
    set (ds := digits_text p 10 false) in *.
    assert (Hds0 : ~ In 0 ds) by apply digits_text_no_nul.
    clearbody ds.
    rewrite (put_all_bufst ds (w ++ [46]) 32 (S (length w)))
      by (rewrite app_length; cbn [length]; lia).
    cbn [bind].
    destruct (Nat.ltb_spec 0 (length ds)) as [_|]; [|lia].
    destruct (Nat.ltb_spec (length ds + S (length w) + 2) 32) as [_|]; [|lia].
    cbn [andb negb bind].
    rewrite (put_bufst ((w ++ [46]) ++ ds) 32 letter)
      by (repeat rewrite app_length; cbn [length]; lia).
    cbn [bind].
    rewrite (put_bufst (((w ++ [46]) ++ ds) ++ [letter]) 32 0)
      by (repeat rewrite app_length; cbn [length]; lia).
    cbn [bind].
    rewrite read_cstr_bufst.
    + split.
      * f_equal. rewrite Ew. repeat rewrite <- app_assoc. reflexivity.
      * rewrite (app_assoc [37]), <- Ew. change (46 :: ds) with ([46] ++ ds).
        repeat rewrite app_length. cbn [length]. lia.
    + intros H. apply in_app_or in H. destruct H as [H|[H|[]]]; [|contradiction].
      apply in_app_or in H. destruct H as [H|H]; [|contradiction].
      apply in_app_or in H. destruct H as [H|[H|[]]]; [contradiction|discriminate].
  - (* no precision *)
    cbn [bind].
    rewrite (put_bufst w 32 letter (length w) eq_refl) by lia. cbn [bind].
    rewrite (put_bufst (w ++ [letter]) 32 0) by (rewrite app_length; cbn [length]; lia).
    cbn [bind].
    rewrite read_cstr_bufst.
    + split.
      * f_equal. rewrite Ew. repeat rewrite <- app_assoc. reflexivity.
      * rewrite (app_assoc [37]), <- Ew. repeat rewrite app_length. cbn [length]. lia.
    + intros H. apply in_app_or in H. destruct H as [H|[H|[]]]; contradiction.
Qed.

Corollary assemble_assert_dead sp : int_precision sp -> assemble sp <> Abort AbFloatFmt.
Proof. intros Hp. destruct (assemble_canonical sp Hp) as [E _]. rewrite E. discriminate. Qed.

(* a negative precision means "none": the format has no '.' *)
Example printf_format_plain :
  printf_format {| fs_min_length := 0; fs_precision := -1; fs_alignment := AlDefault;
                   fs_float_class := FcDefault; fs_pad := 0; fs_always_signed := false |} = [37; 103].
Proof. reflexivity. Qed.
Example printf_format_full :
  printf_format {| fs_min_length := 0; fs_precision := 2147483647; fs_alignment := AlDefault;
                   fs_float_class := FcExpUpper; fs_pad := 0; fs_always_signed := true |}
  = [37; 43; 46; 50; 49; 52; 55; 52; 56; 51; 54; 52; 55; 69].      (* %+.2147483647E *)
Proof. vm_compute. reflexivity. Qed.

(* ================================================================ the wrappers, for every libc *)
Section Libc.
  Variable render : list N -> N -> list N.
  Variable scan : list N -> N * nat.
  Variable scanf : list N -> N * nat.

  Lemma firstn_short {A} (l : list A) k : (length l <= k)%nat -> firstn k l = l.
  Proof. apply firstn_all2. Qed.

  (* snprintf into an array at least as large as the size it is told *)
  Lemma snprintf_fits ncells size fmt v : (0 < size <= ncells)%nat ->
    snprintf render ncells size fmt v =
      Ok (firstn (Nat.pred size) (render fmt v),
          if (int_max <? Z.of_nat (length (render fmt v)))%Z then (-1)%Z
          else Z.of_nat (length (render fmt v))).
  Proof.
    intros Hs. unfold snprintf.
    destruct (Nat.eqb_spec size 0) as [|_]; [lia|].
    pose proof (firstn_le_length (Nat.pred size) (render fmt v)) as Hl.
    pose proof (firstn_length (Nat.pred size) (render fmt v)) as Hl2.
    destruct (Nat.ltb_spec ncells (S (length (firstn (Nat.pred size) (render fmt v))))) as [Hbad|_]; [lia|].
    destruct (int_max <? Z.of_nat (length (render fmt v)))%Z; reflexivity.
  Qed.

  Definition rendering_ok (r : list N) : bool :=
    negb (Nat.eqb (length r) 0) && negb (int_max <? Z.of_nat (length r))%Z.

  Theorem format_type_double_eq sp v : int_precision sp ->
    format_type_double render sp v =
      let r := render (printf_format sp) v in
      if rendering_ok r then Ok (pad_to_width sp r) else Abort AbOther.
  Proof.
    intros Hp. destruct (assemble_canonical sp Hp) as [Ea _].
    unfold format_type_double. rewrite Ea. cbn [bind]. cbv zeta.
    set (fmt := printf_format sp). set (r := render fmt v).
    rewrite snprintf_fits by (unfold out_buffer_size; lia). fold r.
    unfold rendering_ok. cbn [bind].
    destruct (Z.ltb_spec int_max (Z.of_nat (length r))) as [Hbig|Hfit].
    { (* snprintf reports failure: -1 *)
      cbn [Z.leb Z.compare]. rewrite andb_false_r. reflexivity. }
    destruct (Nat.eqb_spec (length r) 0) as [Hz|Hnz].
    { rewrite Hz. reflexivity. }
    destruct (Z.leb_spec (Z.of_nat (length r)) 0) as [|_]; [lia|].
    cbn [negb andb].
    assert (Epad : forall text fsize, text = r -> fsize = Z.of_nat (length r) ->
      (if (fsize <? fs_min_length sp)%Z
       then let k := Z.to_nat (fs_min_length sp - fsize) in
            match fs_alignment sp with
            | AlLeft => Ok (text ++ repeat (if fs_pad sp =? 0 then 32 else fs_pad sp) k)
            | _ => Ok (repeat (if fs_pad sp =? 0 then 32 else fs_pad sp) k ++ text)
            end
       else Ok text) = Ok (pad_to_width sp r)).
    { intros text fsize -> ->. unfold pad_to_width.
      destruct (Z.ltb_spec (Z.of_nat (length r)) (fs_min_length sp)) as [Hlt|Hge].
      - cbv zeta. destruct (fs_alignment sp); reflexivity.
      - replace (Z.to_nat (fs_min_length sp - Z.of_nat (length r))) with 0%nat by lia.
        cbn [repeat]. rewrite app_nil_r. destruct (fs_alignment sp); reflexivity. }
    destruct (Z.leb_spec (Z.of_nat out_buffer_size) (Z.of_nat (length r))) as [Hlong|Hshort].
    - (* REPAIRED path: second rendering into a buffer of exactly the reported size *)
      rewrite Nat2Z.id.
      rewrite snprintf_fits by lia. fold r.
      destruct (Z.ltb_spec int_max (Z.of_nat (length r))) as [|_]; [lia|].
      cbn [bind]. rewrite Z.eqb_refl. cbn [negb bind].
      cbn [Nat.pred]. rewrite firstn_all.
      unfold take_text. destruct (Z.ltb_spec (Z.of_nat (length r)) (Z.of_nat (length r))) as [|_]; [lia|].
      rewrite Nat2Z.id, firstn_all. cbn [bind].
      apply Epad; reflexivity.
    - cbn [bind]. unfold out_buffer_size in *.
      rewrite firstn_short by (cbn [Nat.pred]; lia).
      unfold take_text. destruct (Z.ltb_spec (Z.of_nat (length r)) (Z.of_nat (length r))) as [|_]; [lia|].
      rewrite Nat2Z.id, firstn_all. cbn [bind].
      apply Epad; reflexivity.
  Qed.

  (* consequences, in the words of the property *)
  Theorem format_type_double_no_fault sp v : int_precision sp ->
    is_fault (format_type_double render sp v) = false /\ is_throw (format_type_double render sp v) = false.
  Proof.
    intros Hp. rewrite format_type_double_eq by exact Hp. cbv zeta.
    destruct (rendering_ok _); auto.
  Qed.

  Theorem format_type_double_abort_iff sp v : int_precision sp ->
    (is_abort (format_type_double render sp v) = true <->
     rendering_ok (render (printf_format sp) v) = false).
  Proof.
    intros Hp. rewrite format_type_double_eq by exact Hp. cbv zeta.
    destruct (rendering_ok _); cbn; split; congruence.
  Qed.

  (* the padded field: the rendering is in there uncut, the rest is pad bytes on the side the
     alignment says, the total is max(width, length) *)
  Theorem pad_to_width_shape sp r :
    let pad := if fs_pad sp =? 0 then 32 else fs_pad sp in
    exists k,
      pad_to_width sp r = (if match fs_alignment sp with AlLeft => true | _ => false end
                           then r ++ repeat pad k else repeat pad k ++ r)
      /\ Z.of_nat (length (pad_to_width sp r)) = Z.max (fs_min_length sp) (Z.of_nat (length r)).
  Proof.
    cbv zeta. exists (Z.to_nat (fs_min_length sp - Z.of_nat (length r))).
    unfold pad_to_width. split.
    - destruct (fs_alignment sp); reflexivity.
    - destruct (fs_alignment sp); rewrite app_length, repeat_length; lia.
  Qed.

  (* ---- float_formatter: from_float / from_double / string_stream << *)
  Theorem from_double_eq v letter :
    from_double render v letter =
      if negb (valid_float_letter letter) then Throw BadFormat
      else let r := render [37; letter] v in
           if negb (rendering_ok r) then Abort AbOther
           else if Nat.leb float_formatter_buf (length r) then Abort AbFloatBuf
           else Ok r.
  Proof.
    unfold from_double, float_formatter_format.
    destruct (valid_float_letter letter); [|reflexivity]. cbn [negb]. cbv zeta.
    unfold format_double. set (r := render [37; letter] v).
    rewrite snprintf_fits by (unfold float_formatter_buf; lia). fold r. cbn [bind].
    unfold rendering_ok.
    destruct (Z.ltb_spec int_max (Z.of_nat (length r))) as [Hbig|Hfit].
    { cbn [Z.leb Z.compare]. rewrite andb_false_r. reflexivity. }
    destruct (Nat.eqb_spec (length r) 0) as [Hz|Hnz].
    { rewrite Hz. reflexivity. }
    destruct (Z.leb_spec (Z.of_nat (length r)) 0) as [|_]; [lia|].
    cbn [negb andb].
    destruct (Nat.leb_spec float_formatter_buf (length r)) as [Hlong|Hshort].
    - destruct (Z.ltb_spec (Z.of_nat (length r)) (Z.of_nat float_formatter_buf)) as [|_]; [lia|]. reflexivity.
    - destruct (Z.ltb_spec (Z.of_nat (length r)) (Z.of_nat float_formatter_buf)) as [_|]; [|lia].
      cbn [negb]. unfold float_formatter_buf in *.
      rewrite firstn_short by (cbn [Nat.pred]; lia).
      unfold take_text. destruct (Z.ltb_spec (Z.of_nat (length r)) (Z.of_nat (length r))) as [|_]; [lia|].
      rewrite Nat2Z.id, firstn_all. reflexivity.
  Qed.

  Theorem stream_double_eq v : stream_double render v = from_double render v 103.
  Proof. reflexivity. Qed.

  Theorem from_double_no_fault v letter : is_fault (from_double render v letter) = false.
  Proof.
    rewrite from_double_eq. destruct (negb (valid_float_letter letter)); [reflexivity|]. cbv zeta.
    destruct (negb (rendering_ok _)); [reflexivity|]. destruct (Nat.leb _ _); reflexivity.
  Qed.

  (* ---- to_double / to_float *)
  Theorem to_double_eq text : to_double_flags scan text = to_double_spec scan text.
  Proof.
    unfold to_double_flags, to_double_spec. destruct text as [|c t]; [reflexivity|].
    destruct (scan (upto_nul (c :: t))) as [v e]. cbn [fst snd]. destruct e; reflexivity.
  Qed.

  Theorem to_float_eq text : to_float_flags scanf text = to_double_spec scanf text.
  Proof.
    unfold to_float_flags, to_double_spec. destruct text as [|c t]; [reflexivity|].
    destruct (scanf (upto_nul (c :: t))) as [v e]. cbn [fst snd]. destruct e; reflexivity.
  Qed.

  Theorem to_double_plain_eq text : text <> [] ->
    to_double_plain scan text = fst (fst (to_double_flags scan text)).
  Proof.
    intros Hne. unfold to_double_plain, to_double_flags. destruct text as [|c t]; [contradiction|].
    destruct (scan (upto_nul (c :: t))). reflexivity.
  Qed.
End Libc.

(* non-vacuity: a rendering of 100 bytes is produced in full (the repaired path), an empty one aborts *)
Definition sp_plain : fspec :=
  {| fs_min_length := 0; fs_precision := -1; fs_alignment := AlDefault;
     fs_float_class := FcFixed; fs_pad := 0; fs_always_signed := false |}.
Example long_rendering_in_full :
  format_type_double (fun _ _ => repeat 49 100) sp_plain 0 = Ok (repeat 49 100).
Proof. vm_compute. reflexivity. Qed.
Example empty_rendering_aborts :
  format_type_double (fun _ _ => []) sp_plain 0 = Abort AbOther.
Proof. vm_compute. reflexivity. Qed.
Example from_double_318 :
  from_double (fun _ _ => repeat 49 318) 0 102 = Abort AbFloatBuf /\
  from_double (fun _ _ => repeat 49 317) 0 102 = Ok (repeat 49 317) /\
  from_double (fun _ _ => repeat 49 317) 0 100 = Throw BadFormat.
Proof. vm_compute. auto. Qed.
