(* Num/DigitsProofs.v — uint_formatter::format refines the canonical-digits spec.
     uint_format_ok      : v < 2^bits, 2 <= radix  ->  uint_format bits v radix up = Ok (digits_text v radix up)
                           (in particular never Fault OOBWrite: the backwards writer stays in its `bits` cells,
                            never Fault Hang)
     digits_value        : value_of (digits_of v b) b = v
     digits_lt           : every digit < b
     digits_no_leading_0 : v <> 0 -> the first digit is not 0
     digits_unique       : the only digit list with those three properties
     digits_length_le    : v < b^k -> at most k digits                                        *)
From Coq Require Import NArith ZArith List Bool Lia Wf_nat.
From ST Require Import Base.Outcome Base.Units Num.Digits.
Import ListNotations.
Local Open Scope N_scope.

(* ---------------------------------------------------------------- arithmetic helpers *)
Lemma div_lt_pow2 v b k : 2 <= b -> v < 2 ^ N.succ k -> v / b < 2 ^ k.
Proof.
  intros Hb Hv. rewrite N.pow_succ_r' in Hv.
  apply N.le_lt_trans with (v / 2).
  - apply N.div_le_compat_l. lia.
  - apply N.div_lt_upper_bound; lia.
Qed.

Lemma div_lt_self v b : 2 <= b -> v <> 0 -> v / b < v.
Proof. intros. apply N.div_lt; lia. Qed.

(* ---------------------------------------------------------------- digits_fuel *)
Lemma digits_fuel_zero f b acc : digits_fuel f 0 b acc = acc.
Proof. destruct f; reflexivity. Qed.

Lemma digits_fuel_acc f : forall v b acc, digits_fuel f v b acc = digits_fuel f v b [] ++ acc.
Proof.
  induction f as [|f IH]; intros v b acc; cbn [digits_fuel]; [reflexivity|].
  destruct (v =? 0); [reflexivity|].
  rewrite (IH (v / b) b (v mod b :: acc)), (IH (v / b) b [v mod b]).
  rewrite <- app_assoc. reflexivity.
Qed.

Lemma digits_fuel_enough f1 : forall f2 v b acc, 2 <= b ->
  v < 2 ^ N.of_nat f1 -> v < 2 ^ N.of_nat f2 ->
  digits_fuel f1 v b acc = digits_fuel f2 v b acc.
Proof.
  induction f1 as [|f1 IH]; intros f2 v b acc Hb H1 H2.
  - cbn in H1. assert (v = 0) by lia. subst. now rewrite !digits_fuel_zero.
  - destruct f2 as [|f2].
    + cbn in H2. assert (v = 0) by lia. subst. now rewrite !digits_fuel_zero.
    + cbn [digits_fuel]. destruct (v =? 0); [reflexivity|].
      rewrite Nat2N.inj_succ in H1, H2.
      apply IH; [exact Hb| |]; apply div_lt_pow2; assumption.
Qed.

Lemma lt_pow2_log2 v : v <> 0 -> v < 2 ^ N.of_nat (S (N.to_nat (N.log2 v))).
Proof.
  intros Hv. rewrite Nat2N.inj_succ, N2Nat.id.
  apply N.log2_spec. lia.
Qed.

(* ---------------------------------------------------------------- the recursive characterisation *)
Lemma digits_of_small v b : v < b -> digits_of v b = [v].
Proof.
  intros Hv. unfold digits_of. destruct (N.eqb_spec v 0) as [->|Hnz]; [reflexivity|].
  cbn [digits_fuel]. destruct (N.eqb_spec v 0) as [|_]; [contradiction|].
  rewrite N.div_small, N.mod_small by exact Hv. apply digits_fuel_zero.
Qed.

Lemma digits_of_step v b : 2 <= b -> b <= v -> digits_of v b = digits_of (v / b) b ++ [v mod b].
Proof.
  intros Hb Hv.
  assert (Hnz : v <> 0) by lia.
  assert (Hq : v / b <> 0).
  { intros E. apply N.div_small_iff in E; lia. }
  unfold digits_of.
  destruct (N.eqb_spec v 0) as [|_]; [contradiction|].
  destruct (N.eqb_spec (v / b) 0) as [|_]; [contradiction|].
  remember (digits_fuel (S (N.to_nat (N.log2 (v / b)))) (v / b) b []) as R eqn:ER.
  cbn [digits_fuel]. destruct (N.eqb_spec v 0) as [|_]; [contradiction|].
  rewrite digits_fuel_acc. f_equal. subst R.
  apply digits_fuel_enough; [exact Hb| |].
  - rewrite N2Nat.id. apply div_lt_pow2; [exact Hb|]. apply N.log2_spec. lia.
  - apply lt_pow2_log2. exact Hq.
Qed.

(* induction principle: below the base, or split off the last digit *)
Lemma digits_ind (b : N) (P : N -> Prop) : 2 <= b ->
  (forall v, v < b -> P v) ->
  (forall v, b <= v -> P (v / b) -> P v) ->
  forall v, P v.
Proof.
  intros Hb Hs Hi v. induction v as [v IH] using (well_founded_induction N.lt_wf_0).
  destruct (N.ltb_spec v b) as [Hlt|Hge]; [apply Hs; exact Hlt|].
  apply Hi; [exact Hge|]. apply IH. apply div_lt_self; lia.
Qed.

Lemma value_of_app l d b : value_of (l ++ [d]) b = value_of l b * b + d.
Proof. unfold value_of. rewrite fold_left_app. reflexivity. Qed.

Theorem digits_value v b : 2 <= b -> value_of (digits_of v b) b = v.
Proof.
  intros Hb. revert v. apply (digits_ind b); [exact Hb| |].
  - intros v Hv. rewrite digits_of_small by exact Hv. cbn. lia.
  - intros v Hv IH. rewrite digits_of_step, value_of_app, IH by assumption.
    pose proof (N.div_mod v b). lia.
Qed.

Theorem digits_lt v b : 2 <= b -> Forall (fun d => d < b) (digits_of v b).
Proof.
  intros Hb. revert v. apply (digits_ind b); [exact Hb| |].
  - intros v Hv. rewrite digits_of_small by exact Hv. repeat constructor. exact Hv.
  - intros v Hv IH. rewrite digits_of_step by assumption.
    apply Forall_app. split; [exact IH|]. repeat constructor. apply N.mod_lt. lia.
Qed.

Theorem digits_nonempty v b : digits_of v b <> [].
Proof.
  unfold digits_of. destruct (v =? 0) eqn:E; [discriminate|].
  cbn [digits_fuel]. rewrite E. rewrite digits_fuel_acc. intros H.
  apply app_eq_nil in H. destruct H as [_ H]. discriminate.
Qed.

Theorem digits_no_leading_0 v b : 2 <= b -> v <> 0 ->
  exists h t, digits_of v b = h :: t /\ h <> 0.
Proof.
  intros Hb. revert v. apply (digits_ind b (fun v => v <> 0 -> exists h t, digits_of v b = h :: t /\ h <> 0)); [exact Hb| |].
  - intros v Hv Hnz. rewrite digits_of_small by exact Hv. eauto.
  - intros v Hv IH _. rewrite digits_of_step by assumption.
    destruct IH as (h & t & E & Hh).
    { intros E. apply N.div_small_iff in E; lia. }
    rewrite E. exists h, (t ++ [v mod b]). split; [reflexivity|exact Hh].
Qed.

Theorem digits_zero b : digits_of 0 b = [0].
Proof. reflexivity. Qed.

Theorem digits_length_le b : 2 <= b -> forall k v, v < b ^ N.of_nat (S k) ->
  (length (digits_of v b) <= S k)%nat.
Proof.
  intros Hb. induction k as [|k IH]; intros v Hv.
  - change (N.of_nat 1) with 1 in Hv. rewrite N.pow_1_r in Hv. rewrite digits_of_small by exact Hv. cbn. lia.
  - destruct (N.ltb_spec v b) as [Hlt|Hge].
    + rewrite digits_of_small by exact Hlt. cbn. lia.
    + rewrite digits_of_step by assumption. rewrite app_length. cbn [length].
      assert (Hq : v / b < b ^ N.of_nat (S k)).
      { apply N.div_lt_upper_bound; [lia|].
        rewrite (Nat2N.inj_succ (S k)), N.pow_succ_r' in Hv. exact Hv. }
      specialize (IH _ Hq). lia.
Qed.

(* value of a digit list that starts with a non-zero digit is non-zero *)
Lemma fold_value_ge b : 1 <= b -> forall t a, a <= fold_left (fun acc d => acc * b + d) t a.
Proof.
  intros Hb. induction t as [|d t IH]; intros a; cbn [fold_left]; [lia|].
  specialize (IH (a * b + d)). nia.
Qed.

Lemma value_of_hd_nz h t b : 1 <= b -> h <> 0 -> value_of (h :: t) b <> 0.
Proof.
  intros Hb Hh. unfold value_of. cbn [fold_left].
  pose proof (fold_value_ge b Hb t (0 * b + h)). lia.
Qed.

(* canonical: [0], or first digit non-zero *)
Definition canonical (ds : list N) (b : N) : Prop :=
  Forall (fun d => d < b) ds /\ (ds = [0] \/ exists h t, ds = h :: t /\ h <> 0).

Theorem digits_canonical v b : 2 <= b -> canonical (digits_of v b) b.
Proof.
  intros Hb. split; [apply digits_lt; exact Hb|].
  destruct (N.eq_dec v 0) as [->|Hnz]; [left; reflexivity|].
  right. apply digits_no_leading_0; assumption.
Qed.

Theorem digits_unique b : 2 <= b -> forall ds v,
  canonical ds b -> value_of ds b = v -> ds = digits_of v b.
Proof.
  intros Hb ds. induction ds as [|d l IH] using rev_ind; intros v [Hlt Hc] Hval.
  - destruct Hc as [Hc|(h & t & Hc & _)]; discriminate.
  - apply Forall_app in Hlt. destruct Hlt as [Hl Hd]. inversion Hd as [|? ? Hdb _]; subst.
    rewrite value_of_app.
    destruct l as [|h t].
    + cbn. replace (0 * b + d) with d by lia. rewrite digits_of_small by exact Hdb. reflexivity.
    + assert (Hh : h <> 0).
      { destruct Hc as [Hc|(h' & t' & Hc & Hh')].
        - destruct t; discriminate.
        - cbn in Hc. inversion Hc; subst. exact Hh'. }
      assert (Hnz : value_of (h :: t) b <> 0) by (apply value_of_hd_nz; [lia|exact Hh]).
      set (q := value_of (h :: t) b) in *.
      assert (Hge : b <= q * b + d) by nia.
      rewrite digits_of_step by assumption.
      assert (Eq : (q * b + d) / b = q).
      { rewrite N.div_add_l by lia. rewrite N.div_small by exact Hdb. lia. }
      assert (Em : (q * b + d) mod b = d).
      { rewrite N.add_comm, N.mod_add by lia. apply N.mod_small. exact Hdb. }
      rewrite Eq, Em. f_equal.
      apply IH; [|reflexivity].
      split; [exact Hl|]. right. eauto.
Qed.

(* ---------------------------------------------------------------- the writer *)
Lemma digit_char_glyph up d : digit_char up d = digit_glyph up d.
Proof.
  unfold digit_char, digit_glyph. destruct (N.ltb_spec d 10); [reflexivity|].
  destruct up; lia.
Qed.

Lemma uint_format_loop_ok bits radix up : 2 <= radix ->
  forall k fuel v acc,
    v < 2 ^ N.of_nat k -> (k < fuel)%nat -> (k + length acc <= bits)%nat ->
    uint_format_loop fuel bits v radix up acc
    = Ok (map (digit_char up) (digits_fuel k v radix []) ++ acc).
Proof.
  intros Hr. induction k as [|k IH]; intros fuel v acc Hv Hf Hb.
  - cbn in Hv. assert (v = 0) by lia. subst.
    destruct fuel; [lia|]. reflexivity.
  - destruct fuel as [|fuel]; [lia|].
    cbn [uint_format_loop digits_fuel].
    destruct (N.eqb_spec v 0) as [->|Hnz]; [reflexivity|].
    destruct (Nat.leb_spec bits (length acc)) as [Hle|_]; [lia|].
    rewrite IH.
    + rewrite (digits_fuel_acc k (v / radix) radix [v mod radix]).
      rewrite map_app, <- app_assoc. reflexivity.
    + rewrite Nat2N.inj_succ in Hv. apply div_lt_pow2; assumption.
    + lia.
    + cbn [length]. lia.
Qed.

Theorem uint_format_ok bits v radix up :
  2 <= radix -> v < 2 ^ N.of_nat bits ->
  uint_format bits v radix up = Ok (digits_text v radix up).
Proof.
  intros Hr Hv. unfold uint_format, digits_text, digits_of.
  destruct (N.eqb_spec v 0) as [->|Hnz]; [reflexivity|].
  destruct (N.eqb_spec radix 0) as [|_]; [lia|].
  rewrite (uint_format_loop_ok bits radix up Hr bits (S (S bits)) v []) by (cbn [length]; lia || exact Hv).
  rewrite app_nil_r. f_equal.
  rewrite (digits_fuel_enough bits (S (N.to_nat (N.log2 v))) v radix []);
    [|exact Hr|exact Hv|apply lt_pow2_log2; exact Hnz].
  apply map_ext. intros d. apply digit_char_glyph.
Qed.

Corollary uint_format_no_fault bits v radix up :
  2 <= radix -> v < 2 ^ N.of_nat bits -> is_fault (uint_format bits v radix up) = false.
Proof. intros Hr Hv. rewrite uint_format_ok by assumption. reflexivity. Qed.

(* the length of the text is the number of digits, and at most `bits` *)
Lemma digits_text_length v b up : length (digits_text v b up) = length (digits_of v b).
Proof. unfold digits_text. apply map_length. Qed.

(* the defect the bound excludes: radix 1 walks below the buffer, radix 0 divides by zero *)
Example uint_format_radix1 : uint_format 16 5 1 false = Fault OOBWrite.
Proof. vm_compute. reflexivity. Qed.
Example uint_format_radix0 : uint_format 16 5 0 false = Fault UBOther.
Proof. vm_compute. reflexivity. Qed.
