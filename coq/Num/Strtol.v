(* Num/Strtol.v — strtol / strtoul / strtoll / strtoull modelled from the C standard
   (ISO C17 7.22.1.4), "C" locale.  TRUSTED BASE: this is a model of the C library, not of
   string_theory; it is validated against the platform's glibc by the harness op `strtol_ref`
   on every run of C12 (value and end offset for each generated text and base).

     1. skip isspace()           ' ' \t \n \v \f \r
     2. optional '+' / '-'
     3. base 0: "0x"/"0X" followed by a hex digit -> 16 (prefix skipped); leading '0' -> 8; else 10
        base 16: optional "0x"/"0X" skipped when followed by a hex digit
        ("0x" NOT followed by a hex digit: only the "0" is converted — what glibc does and what
         the standard's "longest initial subsequence of the expected form" means)
        C17 has no "0b" prefix (C23 / glibc >= 2.38 does; this platform: glibc 2.36, checked by strtol_ref)
     4. the longest run of digits/letters whose value is < base; none -> no conversion:
        value 0, end = start of the text (not after the white space or the sign)
     5. the mathematical value is formed exactly, then: signed — saturate to MAX / MIN;
        unsigned — above UMAX gives UMAX, otherwise a '-' sign negates modulo 2^bits.
   An invalid base (1 or > 36; negative bases are not representable here) gives value 0 and
   end 0 in this model; glibc then does not store *endptr at all (see the report: outside the
   property's domain).  The text is a list of bytes; the NUL terminator needs no special case: it
   is neither white space, sign nor digit, so every phase stops at it (proved in IntTextProofs).  *)
From Coq Require Import NArith ZArith List Bool Lia.
Import ListNotations.
Local Open Scope N_scope.

Definition isspace (c : N) : bool := (c =? 32) || ((9 <=? c) && (c <=? 13)).

Definition digit_val (c : N) : option N :=
  if (48 <=? c) && (c <=? 57) then Some (c - 48)            (* '0'..'9' *)
  else if (97 <=? c) && (c <=? 122) then Some (c - 87)      (* 'a'..'z' *)
  else if (65 <=? c) && (c <=? 90) then Some (c - 55)       (* 'A'..'Z' *)
  else None.

Definition digit_in (base c : N) : option N :=
  match digit_val c with
  | Some d => if d <? base then Some d else None
  | None => None
  end.

(* (rest, number of units skipped) *)
Fixpoint skip_space (s : list N) (n : nat) : list N * nat :=
  match s with
  | c :: t => if isspace c then skip_space t (S n) else (s, n)
  | [] => (s, n)
  end.

Definition take_sign (s : list N) (n : nat) : bool * list N * nat :=
  match s with
  | c :: t => if c =? 45 then (true, t, S n)            (* '-' *)
              else if c =? 43 then (false, t, S n)      (* '+' *)
              else (false, s, n)
  | [] => (false, s, n)
  end.

Definition is_hex_digit (c : N) : bool :=
  match digit_in 16 c with Some _ => true | None => false end.

(* '0' ('x'|'X') <hex digit> *)
Definition has_0x (s : list N) : bool :=
  match s with
  | z :: x :: h :: _ => (z =? 48) && ((x =? 120) || (x =? 88)) && is_hex_digit h
  | _ => false
  end.

Definition starts_with_0 (s : list N) : bool :=
  match s with c :: _ => c =? 48 | [] => false end.

(* (effective base, rest, offset) *)
Definition take_prefix (base : N) (s : list N) (n : nat) : N * list N * nat :=
  if ((base =? 0) || (base =? 16)) && has_0x s then (16, skipn 2 s, S (S n))
  else if base =? 0 then ((if starts_with_0 s then 8 else 10), s, n)
  else (base, s, n).

(* (accumulated value, number of digits consumed) *)
Fixpoint scan_digits (base : N) (s : list N) (acc : N) (cnt : nat) : N * nat :=
  match s with
  | c :: t =>
      match digit_in base c with
      | Some d => scan_digits base t (acc * base + d) (S cnt)
      | None => (acc, cnt)
      end
  | [] => (acc, cnt)
  end.

Definition base_ok (base : N) : bool := (base =? 0) || ((2 <=? base) && (base <=? 36)).

(* None = no conversion performed; Some (negative?, magnitude, end offset) *)
Definition strto_parse (s : list N) (base : N) : option (bool * N * nat) :=
  if negb (base_ok base) then None
  else
    let '(s1, n1) := skip_space s 0 in
    let '(neg, s2, n2) := take_sign s1 n1 in
    let '(b, s3, n3) := take_prefix base s2 n2 in
    let '(mag, cnt) := scan_digits b s3 0 0 in
    match cnt with
    | O => None
    | _ => Some (neg, mag, (n3 + cnt)%nat)
    end.

(* strtol (bits = 64 on this platform for both long and long long): (value, end offset) *)
Definition strtol_model (bits : N) (s : list N) (base : N) : Z * nat :=
  match strto_parse s base with
  | None => (0%Z, O)
  | Some (neg, mag, e) =>
      let half := 2 ^ (bits - 1) in
      if neg then ((if half <? mag then (- Z.of_N half)%Z else (- Z.of_N mag)%Z), e)
      else ((if half <=? mag then Z.of_N (half - 1) else Z.of_N mag), e)
  end.

(* strtoul / strtoull *)
Definition strtoul_model (bits : N) (s : list N) (base : N) : N * nat :=
  match strto_parse s base with
  | None => (0, O)
  | Some (neg, mag, e) =>
      let m := 2 ^ bits in
      if m <=? mag then (m - 1, e)
      else if neg then ((m - mag) mod m, e)
      else (mag, e)
  end.

(* the C string a `const char *` denotes: the units before the first NUL *)
Fixpoint upto_nul (s : list N) : list N :=
  match s with
  | c :: t => if c =? 0 then [] else c :: upto_nul t
  | [] => []
  end.
