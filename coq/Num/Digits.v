(* Num/Digits.v — ST::uint_formatter<uint_T>::format (include/st_format_numeric.h) transcribed,
   and the canonical-digits specification.  Shared by C11 (ST::format integers), C12 (from_int,
   string_stream) and C13 (precision digits of the printf format).  MODEL ONLY (no proofs here). *)
From Coq Require Import NArith ZArith List Bool Lia.
From ST Require Import Base.Outcome Base.Units.
Import ListNotations.
Local Open Scope N_scope.
Local Open Scope outcome_scope.

(* the three branches of the digit writer *)
Definition digit_char (upper : bool) (d : N) : N :=
  if d <? 10 then 48 + d               (* '0' + digit *)
  else if upper then 65 + d - 10       (* 'A' + digit - 10 *)
  else 97 + d - 10.                    (* 'a' + digit - 10 *)

(* while (value) { digit = value % radix; value /= radix; *--m_start = ... } ;
   `acc` is the text already written (m_start .. end); the buffer has `bits` cells before the NUL *)
Fixpoint uint_format_loop (fuel : nat) (bits : nat) (value radix : N) (upper : bool) (acc : list N)
  : outcome (list N) :=
  match fuel with
  | O => Fault Hang
  | S f =>
      if value =? 0 then Ok acc
      else if Nat.leb bits (length acc) then Fault OOBWrite      (* --m_start below m_buffer *)
      else uint_format_loop f bits (value / radix) radix upper (digit_char upper (value mod radix) :: acc)
  end.

(* format(value, radix, upper_case) for uint_T of `bits` value bits (numeric_limits::digits);
   value < 2^bits.  radix is the int argument converted to the arithmetic type. *)
Definition uint_format (bits : nat) (value radix : N) (upper : bool) : outcome (list N) :=
  if value =? 0 then Ok [48]
  else if radix =? 0 then Fault UBOther                         (* division by zero *)
  else uint_format_loop (S (S bits)) bits value radix upper [].

(* ---- specification: the unique representation without leading zeros ---- *)
Fixpoint digits_fuel (fuel : nat) (v b : N) (acc : list N) : list N :=
  match fuel with
  | O => acc
  | S f => if v =? 0 then acc else digits_fuel f (v / b) b ((v mod b) :: acc)
  end.
(* digit VALUES, most significant first; [0] for zero *)
Definition digits_of (v b : N) : list N :=
  if v =? 0 then [0] else digits_fuel (S (N.to_nat (N.log2 v))) v b [].
Definition digit_glyph (upper : bool) (d : N) : N :=
  if d <? 10 then 48 + d else (if upper then 55 else 87) + d.
Definition digits_text (v b : N) (upper : bool) : list N := map (digit_glyph upper) (digits_of v b).
(* value denoted by a digit list *)
Definition value_of (ds : list N) (b : N) : N := fold_left (fun acc d => acc * b + d) ds 0.
