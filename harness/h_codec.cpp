// harness/h_codec.cpp — C14 / C15: hex and base64 through the public API only.
#include "common.h"
using namespace vh;

static std::string dec_buf(bool b64, const Args &a)
{
    Block<char> in = units<char>(a[0]);
    ST::string s = ST::string::from_validated(in.data(), in.size());
    std::ostringstream o;
    if (a[1] == "null") {
        ST_ssize_t r = b64 ? ST::base64_decode(s, nullptr, 0) : ST::hex_decode(s, nullptr, 0);
        o << "ret=" << (long long)r;
        return o.str();
    }
    size_t osize = u64(a[1]);
    // exact-size output block: a write past output_size hits the ASan redzone.  For an output_size that cannot be
    // allocated (callers passing SIZE_MAX as "unbounded") the real block has the size of the input, which bounds
    // the decoded length; the library is still told the huge size
    size_t real = osize > (size_t(1) << 30) ? in.size() + 1 : osize;
    // the caller's buffer starts at a varying alignment (vh::g_align cycles through 0..7) and ends at the end of the block
    unsigned char *out_base = static_cast<unsigned char *>(malloc(size_t(g_align) + (real ? real : 1)));
    unsigned char *out = out_base + g_align;
    memset(out, 0xA5, real ? real : 1);
    ST_ssize_t r = b64 ? ST::base64_decode(s, out, osize) : ST::hex_decode(s, out, osize);
    o << "ret=" << (long long)r;
    if (r >= 0) {
        bool rest = true;
        for (size_t i = size_t(r); i < real; ++i) rest = rest && out[i] == 0xA5;
        o << " data=" << hex(reinterpret_cast<char *>(out), size_t(r)) << " rest=" << (rest ? 1 : 0);
    }
    free(out_base);
    return o.str();
}

static std::string dispatch(const std::string &op, const Args &a)
{
    if (op == "hex_enc" || op == "b64_enc") {
        Block<char> in = units<char>(a[0]);
        size_t size = a.size() > 1 ? u64(a[1]) : in.size();
        ST::string r = (op == "hex_enc") ? ST::hex_encode(in.data(), size) : ST::base64_encode(in.data(), size);
        std::ostringstream o;
        o << hex(r) << " size=" << r.size() << " term=" << (r.c_str()[r.size()] == 0 ? 1 : 0);
        return o.str();
    }
    if (op == "hex_enc_buf" || op == "b64_enc_buf") {
        Block<char> in = units<char>(a[0]);
        ST::char_buffer cb(in.data(), in.size());
        ST::string r = (op == "hex_enc_buf") ? ST::hex_encode(cb) : ST::base64_encode(cb);
        std::ostringstream o;
        o << hex(r) << " size=" << r.size() << " term=" << (r.c_str()[r.size()] == 0 ? 1 : 0);
        return o.str();
    }
    if (op == "hex_dec" || op == "b64_dec") {
        Block<char> in = units<char>(a[0]);
        ST::string s = ST::string::from_validated(in.data(), in.size());
        ST::char_buffer r = (op == "hex_dec") ? ST::hex_decode(s) : ST::base64_decode(s);
        return bufinfo(r);
    }
    if (op == "hex_dec_buf") return dec_buf(false, a);
    if (op == "b64_dec_buf") return dec_buf(true, a);
    fprintf(stderr, "h_codec: unknown op %s\n", op.c_str());
    exit(2);
}

static std::string codec_probe()
{
    static const unsigned char raw[] = { 0, 1, 0x7f, 0x80, 0xff, 'a', 'b', 'c', 0x10, 0x20, 0x30, 0x40, 0x50, 0x60, 0x70, 0x11, 0x22, 0x33, 0x44 };
    ST::string h = ST::hex_encode(raw, sizeof raw), b = ST::base64_encode(raw, sizeof raw);
    std::ostringstream o;
    o << hex(h) << "|" << hex(b) << "|" << hex(ST::hex_decode(h)) << "|" << hex(ST::base64_decode(b)) << "|" << hex(ST::hex_decode(h.to_upper()));
    return o.str();
}

VH_STARTUP_PROBE(codec_probe)

int main(int argc, char **argv) { vh::g_probe = codec_probe; return run_main(argc, argv, dispatch); }
