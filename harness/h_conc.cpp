// harness/h_conc.cpp — C20: N threads run const operations on SHARED immutable strings/buffers together with
// arbitrary operations on thread-local objects, with no synchronisation; built with ThreadSanitizer.
// Each thread folds everything it computes into a digest; afterwards the same programs run one after the other
// on one thread and must give the same digests ("every thread obtains the same results it obtains when run alone").
#include "common.h"
#include <thread>
#include <atomic>
using namespace vh;

struct Rng {
    uint64_t s;
    explicit Rng(uint64_t seed) : s(seed * 0x9E3779B97F4A7C15ull + 0x1234567) { next(); next(); }
    uint64_t next() { s ^= s << 13; s ^= s >> 7; s ^= s << 17; return s; }
    uint64_t below(uint64_t n) { return next() % n; }
};

struct Digest {
    uint64_t h = 0xcbf29ce484222325ull;
    void add(const void *p, size_t n) { const unsigned char *c = (const unsigned char *)p; for (size_t i = 0; i < n; ++i) { h ^= c[i]; h *= 0x100000001b3ull; } }
    void add(uint64_t v) { add(&v, sizeof v); }
    void add(const ST::string &s) { add(s.size()); add(s.c_str(), s.size()); }
    template <class T> void add(const ST::buffer<T> &b) { add(b.size()); add(b.data(), b.size() * sizeof(T)); }
    void add(const std::string &s) { add(s.size()); add(s.data(), s.size()); }
};

struct Shared {
    std::vector<ST::string> strs;
    std::vector<ST::char_buffer> bufs;
    std::vector<ST::utf16_buffer> u16;
};

static ST::string make_text(Rng &r, size_t n)
{
    static const char *words[] = {"alpha", "Beta", "gamma-delta", " ", "\xC3\xA9t\xC3\xA9", "\xE2\x82\xAC", "\xF0\x9F\x98\x80", "0x1F", "-42", "3.25", "a,b,,c", "  pad  "};
    ST::string_stream ss;
    while (ss.size() < n) ss << words[r.below(sizeof(words) / sizeof(words[0]))];
    return ss.to_string();
}

// one thread's program: `iters` operations chosen by its own PRNG
static uint64_t program(const Shared &sh, uint64_t seed, int tid, int iters)
{
    Rng r(seed * 1000003 + tid);
    Digest d;
    ST::string own = make_text(r, 5 + r.below(40));
    ST::string_stream stream;
    std::vector<ST::string> bag;
    for (int i = 0; i < iters; ++i) {
        const ST::string &s = sh.strs[r.below(sh.strs.size())];
        const ST::string &t = sh.strs[r.below(sh.strs.size())];
        try {
        switch (r.below(32)) {
        case 0: d.add(uint64_t(s.compare(t) < 0) + 2 * uint64_t(s.compare_i(t) == 0) + 4 * uint64_t(s == t)); break;
        case 1: d.add(uint64_t(s.find(t.left(2))) ^ uint64_t(s.find_last('a')) ^ uint64_t(s.contains("ta"))); break;
        case 2: d.add(ST::hash()(s) ^ ST::hash_i()(t)); break;
        case 3: d.add(s.substr(r.below(s.size() + 1), r.below(20))); d.add(s.right(3)); break;
        case 4: d.add(s.to_upper()); d.add(t.to_lower()); d.add(s.trim()); break;
        case 5: d.add(s.to_utf16()); d.add(s.to_utf32()); d.add(s.to_wchar()); d.add(s.to_latin_1()); break;
        case 6: for (const ST::string &p : s.split(',')) d.add(p); for (const ST::string &p : t.tokenize()) d.add(p); break;
        case 7: d.add(ST::format("{}|{>12}|{x}|{.3f}", s, t, i * 7919, i / 7.0)); break;
        case 8: d.add(ST::hex_encode(s.to_utf8())); d.add(ST::base64_encode(t.to_utf8())); break;
        case 9: { ST::string e = ST::base64_encode(s.to_utf8()); d.add(ST::base64_decode(e)); d.add(ST::hex_decode(ST::hex_encode(t.to_utf8()))); break; }
        case 10: d.add(s.replace(t.left(1), "##")); d.add(s.before_first('a')); d.add(t.after_last(' ')); break;
        case 11: d.add(s + t); d.add(s + U'\x20AC'); break;
        case 12: { std::ostringstream os; os << s << '|' << t; d.add(os.str()); break; }
        case 13: { const ST::char_buffer &b = sh.bufs[r.below(sh.bufs.size())]; d.add(uint64_t(b.compare(sh.bufs[0]))); d.add(ST::string::from_utf8(b)); d.add(ST::utf8_to_utf16(b)); break; }
        case 14: { const ST::utf16_buffer &u = sh.u16[r.below(sh.u16.size())]; d.add(ST::utf16_to_utf8(u)); d.add(ST::utf16_to_utf32(u)); d.add(ST::string::from_utf16(u)); break; }
        case 15: d.add(uint64_t(s.to_int()) ^ uint64_t(t.to_uint(16)) ^ uint64_t(s.to_double() * 8)); d.add(uint64_t(s.starts_with(t) + 2 * s.ends_with(t))); break;
        // ---- thread-local objects
        case 16: own += s; if (own.size() > 400) own = own.left(17); d.add(own); break;
        case 17: own = own.replace("a", "A").to_lower() + ST::string::from_int(i, 2 + int(r.below(35))); d.add(own); break;
        case 18: stream << s << i << ' ' << (i * 1.5) << u"é" << U"\U0001F600"; if (stream.size() > 900) stream.truncate(10); d.add(stream.to_string()); break;
        case 19: bag.push_back(s.substr(0, 5)); bag.push_back(t); if (bag.size() > 8) bag.erase(bag.begin(), bag.begin() + 5); for (auto &x : bag) d.add(x); break;
        case 20: { ST::string m = std::move(own); own = m + "."; d.add(m); break; }
        case 21: d.add(ST::string::from_double(i / 3.0)); d.add(ST::string::from_uint(r.below(1u << 30), 16, true)); d.add(ST::format("{#x} {08b} {+}", i, i & 255, -i)); break;
        case 22: { ST::string_stream other(std::move(stream)); other << "moved"; d.add(other.to_string()); stream << "again"; d.add(stream.to_string()); break; }
        // floating-point renderings of 64 characters and more (heap path of format_type(double)), explicit precisions
        case 24: d.add(ST::format("{.90f}|{.70e}|{.2f}|{+.12f}|{.0f}", i / 7.0, i * 3.25, 1e75 * (i + 1), i / 3.0, i * 1.5)); break;
        // move-construct from a thread-local string / buffer, then clear and reuse the moved-from object
        case 25: { ST::string m(std::move(own)); own.clear(); d.add(own); own = m + s.left(3); bag.emplace_back(std::move(m)); m.clear(); d.add(m); if (bag.size() > 8) bag.clear(); break; }
        case 26: { ST::char_buffer cb = (r.below(2) ? t : s).to_utf8(); ST::char_buffer mv(std::move(cb)); cb.clear(); d.add(cb); d.add(mv);
                   ST::utf16_buffer w = s.to_utf16(); ST::utf16_buffer wm(std::move(w)); w.clear(); w.allocate(2, u'x'); d.add(ST::utf16_to_utf8(w)); d.add(ST::utf16_to_utf8(wm)); break; }
        // moved-from objects assigned to, streams moved and cleared
        case 27: { ST::string a = s, b; b = std::move(a); a = t; d.add(a); d.add(b); ST::string_stream x; x << s; ST::string_stream y; y = std::move(x); x << 'q'; d.add(x.to_string()); d.add(y.to_string()); break; }
        // case-insensitive searching, slicing, splitting and replacing on SHARED strings (char and string needles)
        case 28: d.add(uint64_t(s.find('a', ST::case_insensitive)) ^ uint64_t(s.find_last('T', ST::case_insensitive)) ^ uint64_t(s.contains('q', ST::case_insensitive))
                       ^ uint64_t(s.find(t.left(2), ST::case_insensitive)) ^ uint64_t(s.find_last("TA", ST::case_insensitive)) ^ uint64_t(s.starts_with(t.left(1), ST::case_insensitive))
                       ^ uint64_t(s.ends_with("z", ST::case_insensitive)) ^ uint64_t(s.compare_i(t) < 0) ^ uint64_t(s.compare_ni(t, 3) == 0)); break;
        case 29: d.add(s.before_first('A', ST::case_insensitive)); d.add(s.after_last("ta", ST::case_insensitive)); d.add(s.replace("A", "#", ST::case_insensitive));
                 for (const ST::string &p : s.split("e", 3, ST::case_insensitive)) d.add(p); for (const ST::string &p : t.split('E', 2, ST::case_insensitive)) d.add(p);
                 d.add(uint64_t(ST::hash_i()(s)) ^ uint64_t(ST::less_i()(s, t)) ^ uint64_t(ST::equal_i()(s, t))); break;
        // outputs beyond 2 KiB and 4 KiB: the sinks' doubling buffers reach sizes no other operation reaches, and are released again
        case 30: d.add(ST::format("{>2500}|{}|{<3000}", s, t, i)); d.add(ST::format_latin_1("{>2100}", s.to_latin_1().c_str())); break;
        case 31: { ST::string_stream big; for (int k = 0; k < 70 + int(r.below(40)); ++k) big << s << k << t; d.add(big.to_string());
                   ST::string_stream big2; for (int k = 0; k < 120; ++k) big2 << t; d.add(big2.to_string()); break; }
        case 23: { ST::char_buffer cb = own.to_utf8(); ST::char_buffer cc(cb); cc.allocate(3, 'z'); d.add(cb); d.add(cc); ST::utf16_buffer w = ST::utf8_to_utf16(cb); d.add(ST::utf16_to_utf8(w)); break; }
        }
        } catch (const ST::unicode_error &) { d.add(uint64_t(0xE1)); own = "reset"; }
          catch (const ST::codec_error &) { d.add(uint64_t(0xE2)); }
    }
    return d.h;
}

static std::string dispatch(const std::string &op, const Args &a)
{
    if (op != "thr") { fprintf(stderr, "h_conc: unknown op %s\n", op.c_str()); exit(2); }
    int nthreads = atoi(a[0].c_str());
    uint64_t seed = u64(a[1]);
    int iters = atoi(a[2].c_str());
    Shared sh;
    Rng r(seed);
    for (int i = 0; i < 12; ++i) sh.strs.push_back(make_text(r, i < 4 ? r.below(15) : 16 + r.below(60)));
    for (int i = 0; i < 4; ++i) sh.bufs.push_back(sh.strs[i * 3].to_utf8());
    for (int i = 0; i < 4; ++i) sh.u16.push_back(sh.strs[i * 2 + 1].to_utf16());
    std::vector<uint64_t> conc(nthreads), alone(nthreads);
    std::vector<std::thread> ts;
    std::atomic<int> go(0);
    for (int t = 0; t < nthreads; ++t)
        ts.emplace_back([&, t] { while (!go.load()) {} conc[t] = program(sh, seed, t, iters); });
    go.store(1);
    for (auto &t : ts) t.join();
    for (int t = 0; t < nthreads; ++t) alone[t] = program(sh, seed, t, iters);
    bool same = true;
    for (int t = 0; t < nthreads; ++t) same = same && conc[t] == alone[t];
    std::ostringstream o;
    o << "consistent=" << (same ? 1 : 0) << " threads=" << nthreads;
    return o.str();
}

int main(int argc, char **argv) { return run_main(argc, argv, dispatch); }
