// harness/h_mem.cpp — C05 (buffer histories), C16 (string_stream histories), C19 (allocation faults)
// One case = one whole history over a pool of objects; after EVERY operation every live object is
// observed (size, units, terminator, where data() points, whether two objects share storage).
#include "common.h"
#include <atomic>
using namespace vh;

// a user-defined argument type whose format_type overload takes the value by value
struct ByValArg { ST::string s; };
inline void format_type(const ST::format_spec &f, ST::format_writer &o, ByValArg v) { ST::format_type(f, o, v.s); }

// ---- allocation accounting and fault injection (global operator new/delete replaced) ----
static long g_live_arr = 0;        // live new[] blocks
static long g_fail_in = -1;        // >= 0: the (g_fail_in)-th allocation from now throws
static bool g_window = false;      // count/fail only inside a library operation
static long g_window_allocs = 0;

static void *do_alloc(size_t n, bool arr)
{
    if (g_window) {
        ++g_window_allocs;
        if (g_fail_in == 0) { g_fail_in = -1; throw std::bad_alloc(); }
        if (g_fail_in > 0) --g_fail_in;
    }
    void *p = malloc(n ? n : 1);
    if (!p) throw std::bad_alloc();
    if (arr) ++g_live_arr;
    return p;
}
// the harness's own bookkeeping (building the text it prints) is kept outside the fault window
struct NoWindow { bool w; long f; NoWindow() : w(g_window), f(g_fail_in) { g_window = false; } ~NoWindow() { g_window = w; } };
void *operator new(size_t n) { return do_alloc(n, false); }
void *operator new[](size_t n) { return do_alloc(n, true); }
void operator delete(void *p) noexcept { free(p); }
void operator delete(void *p, size_t) noexcept { free(p); }
void operator delete[](void *p) noexcept { if (p) --g_live_arr; free(p); }
void operator delete[](void *p, size_t) noexcept { if (p) --g_live_arr; free(p); }

static std::vector<std::string> split_on(const std::string &s, char sep)
{
    std::vector<std::string> v;
    std::string cur;
    for (char c : s) {
        if (c == sep) { v.push_back(cur); cur.clear(); } else cur.push_back(c);
    }
    v.push_back(cur);
    return v;
}

// ------------------------------------------------------------------ buffers
template <class T>
struct BufPool {
    typedef ST::buffer<T> B;
    static const int MAXP = 8;
    alignas(B) unsigned char mem[MAXP][sizeof(B)];
    bool live[MAXP];
    int pool;
    explicit BufPool(int p) : pool(p) { for (int i = 0; i < MAXP; ++i) live[i] = false; memset(mem, 0, sizeof(mem)); }
    B &at(int i) { return *reinterpret_cast<B *>(mem[i]); }
    void kill(int i) { at(i).~B(); live[i] = false; memset(mem[i], 0, sizeof(B)); }

    std::string observe()
    {
        std::ostringstream o;
        for (int i = 0; i < pool; ++i) {
            o << ";" << i << "=";
            if (!live[i]) { o << "-"; continue; }
            B &b = at(i);
            const unsigned char *d = reinterpret_cast<const unsigned char *>(b.data());
            char loc = 'H';
            for (int k = 0; k < pool; ++k) {
                if (d >= mem[k] && d < mem[k] + sizeof(B)) loc = (k == i) ? 'L' : 'F';
            }
            o << hex(b.data(), b.size()) << ":" << b.size() << ":" << (b.data()[b.size()] == 0 ? 1 : 0) << ":" << loc;
        }
        bool sh = false;
        for (int i = 0; i < pool; ++i)
            for (int k = i + 1; k < pool; ++k) {
                if (!live[i] || !live[k]) continue;
                const T *a0 = at(i).data(), *a1 = a0 + at(i).size() + 1;
                const T *b0 = at(k).data(), *b1 = b0 + at(k).size() + 1;
                if (a0 < b1 && b0 < a1) sh = true;
            }
        o << ";sh=" << (sh ? 1 : 0);
        // the comparison operators between objects with DIFFERENT histories: ==, != and compare() must say "equal"
        // exactly when sizes and elements are equal (reported only when they do not, so that the line is unchanged)
        for (int i = 0; i < pool; ++i)
            for (int k = 0; k < pool; ++k) {
                if (i == k || !live[i] || !live[k]) continue;
                const B &x = at(i), &y = at(k);
                bool same = x.size() == y.size();
                for (size_t j = 0; same && j < x.size(); ++j) same = x.data()[j] == y.data()[j];
                if ((x == y) != same || (x != y) == same || (x.compare(y) == 0) != same) o << ";cmpbad=" << i << "," << k;
            }
        return o.str();
    }

    void apply(const std::vector<std::string> &f)
    {
        const std::string &op = f[0];
        int o = atoi(f[1].c_str());
        if (op == "def") { new (mem[o]) B(); live[o] = true; }
        else if (op == "new") { Block<T> d = units<T>(f[2]); new (mem[o]) B(d.data(), d.size()); live[o] = true; }
        else if (op == "newnull") { new (mem[o]) B(nullptr, u64(f[2])); live[o] = true; }
        else if (op == "fill") { new (mem[o]) B(u64(f[2]), T(u64(f[3]))); live[o] = true; }
        else if (op == "copy") { new (mem[o]) B(at(atoi(f[2].c_str()))); live[o] = true; }
        else if (op == "move") { new (mem[o]) B(std::move(at(atoi(f[2].c_str())))); live[o] = true; }
        else if (op == "asg") { at(o) = at(atoi(f[2].c_str())); }
        else if (op == "masg") { B &src = at(atoi(f[2].c_str())); at(o) = std::move(src); }
        else if (op == "alloc") { size_t n = u64(f[2]); at(o).allocate(n); for (size_t i = 0; i < n; ++i) at(o).data()[i] = T(u64(f[3])); }
        else if (op == "allocfill") { at(o).allocate(u64(f[2]), T(u64(f[3]))); }
        else if (op == "write") { size_t i = u64(f[2]); if (i < at(o).size()) at(o).data()[i] = T(u64(f[3])); }
        else if (op == "clear") { at(o).clear(); }
        else if (op == "del") { kill(o); }
        else if (op == "swap") { using std::swap; swap(at(o), at(atoi(f[2].c_str()))); }   // found by ADL if the library has one
        else { fprintf(stderr, "h_mem: unknown buffer op %s\n", op.c_str()); exit(2); }
    }

    // a[2] = ops separated by ';', fields by ','; optional a[3] = "failat=<k>@<step>"
    std::string run(const Args &a)
    {
        std::vector<std::string> ops = split_on(a[2], ';');
        long fail_step = -1, fail_k = -1;
        if (a.size() > 3 && a[3].compare(0, 7, "failat=") == 0) {
            std::vector<std::string> fk = split_on(a[3].substr(7), '@');
            fail_k = atol(fk[0].c_str());
            fail_step = atol(fk[1].c_str());
        }
        long base = g_live_arr;
        std::ostringstream out;
        for (size_t s = 0; s < ops.size(); ++s) {
            std::vector<std::string> f = split_on(ops[s], ',');
            std::string r = "ok";
            g_window = true;
            g_window_allocs = 0;
            g_fail_in = (long(s) == fail_step) ? fail_k : -1;
            try {
                apply(f);
            } catch (const std::bad_alloc &) {
                r = "bad_alloc";
                // a constructor that threw leaves no object
            }
            g_window = false;
            g_fail_in = -1;
            out << (s ? "|" : "") << "r=" << r << observe();
        }
        for (int i = 0; i < pool; ++i)
            if (live[i]) kill(i);
        out << "|leak=" << (g_live_arr - base);
        return out.str();
    }
};


// ------------------------------------------------------------------ string_stream
struct StreamPool {
    typedef ST::string_stream S;
    static const int MAXP = 6;
    alignas(S) unsigned char mem[MAXP][sizeof(S)];
    bool live[MAXP];
    int pool;
    std::string extra;
    explicit StreamPool(int p) : pool(p) { for (int i = 0; i < MAXP; ++i) live[i] = false; memset(mem, 0, sizeof(mem)); }
    S &at(int i) { return *reinterpret_cast<S *>(mem[i]); }
    void kill(int i) { at(i).~S(); live[i] = false; memset(mem[i], 0, sizeof(S)); }

    std::string observe()
    {
        std::ostringstream o;
        for (int i = 0; i < pool; ++i) {
            o << ";" << i << "=";
            if (!live[i]) { o << "-"; continue; }
            S &b = at(i);
            const unsigned char *d = reinterpret_cast<const unsigned char *>(b.raw_buffer());
            char loc = 'H';
            for (int k = 0; k < pool; ++k)
                if (d >= mem[k] && d < mem[k] + sizeof(S)) loc = (k == i) ? 'L' : 'F';
            o << hex(b.raw_buffer(), b.size()) << ":" << b.size() << ":" << loc;
        }
        bool sh = false;
        for (int i = 0; i < pool; ++i)
            for (int k = i + 1; k < pool; ++k) {
                if (!live[i] || !live[k]) continue;
                // capacity is not observable; compare the used ranges and the start pointers
                const char *a0 = at(i).raw_buffer(), *a1 = a0 + at(i).size();
                const char *b0 = at(k).raw_buffer(), *b1 = b0 + at(k).size();
                if ((a0 < b1 && b0 < a1) || a0 == b0) sh = true;
            }
        o << ";sh=" << (sh ? 1 : 0);
        return o.str();
    }

    void apply(const std::vector<std::string> &f)
    {
        const std::string &op = f[0];
        int o = atoi(f[1].c_str());
        if (op == "new") { new (mem[o]) S(); live[o] = true; }
        else if (op == "move") { new (mem[o]) S(std::move(at(atoi(f[2].c_str())))); live[o] = true; }
        else if (op == "masg") { S &src = at(atoi(f[2].c_str())); at(o) = std::move(src); }
        else if (op == "app") { Block<char> d = units<char>(f[2]); at(o).append(d.data(), d.size()); }
        else if (op == "app.cstr") { Block<char> d = units<char>(f[2], 1); at(o) << d.data(); }
        else if (op == "app.auto") { Block<char> d = units<char>(f[2], 1); at(o).append(d.data()); }
        else if (op == "app.st") { Block<char> d = units<char>(f[2]); at(o) << ST::string::from_validated(d.data(), d.size()); }
        else if (op == "app.std") { Block<char> d = units<char>(f[2]); at(o) << std::string(d.data(), d.size()); }
        else if (op == "app.view") { Block<char> d = units<char>(f[2]); at(o) << std::string_view(d.data(), d.size()); }
        else if (op == "app.u8") { Block<char> d = units<char>(f[2]); at(o) << std::u8string(reinterpret_cast<const char8_t *>(d.data()), d.size()); }
        else if (op == "appc") { at(o).append_char(char(u64(f[2])), u64(f[3])); }
        else if (op == "shlc") { at(o) << char(u64(f[2])); }
        else if (op == "trunc") { at(o).truncate(u64(f[2])); }
        else if (op == "erase") { at(o).erase(u64(f[2])); }
        else if (op == "shl") {
            const std::string &ty = f[2];
            if (ty == "i32") at(o) << int(i64(f[3]));
            else if (ty == "u32") at(o) << (unsigned int)(u64(f[3]));
            else if (ty == "i64") at(o) << long(i64(f[3]));
            else if (ty == "u64") at(o) << (unsigned long)(u64(f[3]));
            else if (ty == "ill") at(o) << (long long)(i64(f[3]));
            else if (ty == "ull") at(o) << (unsigned long long)(u64(f[3]));
            else { fprintf(stderr, "h_mem: shl type %s\n", ty.c_str()); exit(2); }
        }
        else if (op == "tostr") {
            ST::utf_validation_t m = f[3] == "av" ? ST::assume_valid : f[3] == "si" ? ST::substitute_invalid : ST::check_validity;
            ST::string r = (f[3] == "default") ? at(o).to_string(f[2] == "u") : at(o).to_string(f[2] == "u", m);
            extra = ",ts=" + hex(r);
        }
        else if (op == "shld") { uint64_t b = u64(f[2]); double d; memcpy(&d, &b, 8); at(o) << d; }
        else if (op == "shlf") { uint32_t b = uint32_t(u64(f[2])); float d; memcpy(&d, &b, 4); at(o) << d; }
        else if (op == "shl16") { Block<char16_t> d = units<char16_t>(f[2], 1); at(o) << d.data(); }
        else if (op == "shl16s") { Block<char16_t> d = units<char16_t>(f[2]); at(o) << std::u16string(d.data(), d.size()); }
        else if (op == "shl16v") { Block<char16_t> d = units<char16_t>(f[2]); at(o) << std::u16string_view(d.data(), d.size()); }
        else if (op == "shl32") { Block<char32_t> d = units<char32_t>(f[2], 1); at(o) << d.data(); }
        else if (op == "shl32s") { Block<char32_t> d = units<char32_t>(f[2]); at(o) << std::u32string(d.data(), d.size()); }
        else if (op == "shlw") { Block<wchar_t> d = units<wchar_t>(f[2]); at(o) << std::wstring(d.data(), d.size()); }
        else if (op == "del") { kill(o); }
        else { fprintf(stderr, "h_mem: unknown stream op %s\n", op.c_str()); exit(2); }
    }

    std::string run(const Args &a)
    {
        std::vector<std::string> ops = split_on(a[1], ';');
        long fail_step = -1, fail_k = -1;
        if (a.size() > 2 && a[2].compare(0, 7, "failat=") == 0) {
            std::vector<std::string> fk = split_on(a[2].substr(7), '@');
            fail_k = atol(fk[0].c_str());
            fail_step = atol(fk[1].c_str());
        }
        long base = g_live_arr;
        std::ostringstream out;
        for (size_t s = 0; s < ops.size(); ++s) {
            std::vector<std::string> f = split_on(ops[s], ',');
            std::string r = "ok";
            extra.clear();
            g_window = true;
            g_window_allocs = 0;
            g_fail_in = (long(s) == fail_step) ? fail_k : -1;
            try {
                apply(f);
            } catch (const std::bad_alloc &) {
                r = "bad_alloc";
            } catch (const ST::unicode_error &) {
                r = "unicode_error";
            }
            g_window = false;
            g_fail_in = -1;
            out << (s ? "|" : "") << "r=" << r << extra << observe();
        }
        for (int i = 0; i < pool; ++i)
            if (live[i]) kill(i);
        out << "|leak=" << (g_live_arr - base);
        return out.str();
    }
};

// ------------------------------------------------------------------ ST::string histories (C04, C18, C19)
struct StrPool {
    typedef ST::string S;
    static const int MAXP = 8;
    alignas(S) unsigned char mem[MAXP][sizeof(S)];
    bool live[MAXP];
    const void *lastp[MAXP];
    int pool;
    std::string extra;   // per-step extra facts (e.g. the rvalue argument after a failed set)
    explicit StrPool(int p) : pool(p) { for (int i = 0; i < MAXP; ++i) { live[i] = false; lastp[i] = nullptr; } memset(mem, 0, sizeof(mem)); }
    S &at(int i) { return *reinterpret_cast<S *>(mem[i]); }
    void kill(int i) { at(i).~S(); live[i] = false; lastp[i] = nullptr; memset(mem[i], 0, sizeof(S)); }

    std::string observe()
    {
        std::ostringstream o;
        for (int i = 0; i < pool; ++i) {
            o << ";" << i << "=";
            if (!live[i]) { o << "-"; continue; }
            S &b = at(i);
            const unsigned char *d = reinterpret_cast<const unsigned char *>(b.data());
            char loc = 'H';
            for (int k = 0; k < pool; ++k)
                if (d >= mem[k] && d < mem[k] + sizeof(S)) loc = (k == i) ? 'L' : 'F';
            // p: data() is where it was after the previous step (n = object is new)
            char same = lastp[i] == nullptr ? 'n' : (lastp[i] == b.data() ? '1' : '0');
            lastp[i] = b.data();
            o << hex(b.data(), b.size()) << ":" << b.size() << ":" << (b.data()[b.size()] == 0 ? 1 : 0) << ":" << loc << ":" << same;
        }
        bool sh = false;
        for (int i = 0; i < pool; ++i)
            for (int k = i + 1; k < pool; ++k) {
                if (!live[i] || !live[k]) continue;
                const char *a0 = at(i).data(), *a1 = a0 + at(i).size() + 1;
                const char *b0 = at(k).data(), *b1 = b0 + at(k).size() + 1;
                if (a0 < b1 && b0 < a1) sh = true;
            }
        o << ";sh=" << (sh ? 1 : 0);
        // comparison between strings with different histories (see BufPool::observe)
        for (int i = 0; i < pool; ++i)
            for (int k = 0; k < pool; ++k) {
                if (i == k || !live[i] || !live[k]) continue;
                const S &x = at(i), &y = at(k);
                bool same = x.size() == y.size() && memcmp(x.c_str(), y.c_str(), x.size()) == 0;
                if ((x == y) != same || (x != y) == same || (x.compare(y) == 0) != same
                    || (same && ST::hash()(x) != ST::hash()(y))) o << ";cmpbad=" << i << "," << k;
            }
        return o.str();
    }

    static void battery(const S &x)
    {
        // a battery of const members and free functions; results are discarded
        size_t sink = 0;
        sink += x.size() + x.empty() + ST::hash()(x) + ST::hash_i()(x);
        sink += x.compare(x) + x.compare("abc") + x.compare_i(x) + x.compare_n(x, 3) + (x == x) + (x != x) + (x < x);
        sink += x.find('a') + x.find("bc") + x.find_last('a') + x.find_last("bc") + x.contains("q") + x.starts_with("a") + x.ends_with("z");
        sink += x.to_utf16().size() + x.to_utf32().size() + x.to_wchar().size() + x.to_latin_1().size();
        sink += x.to_std_string().size() + x.to_std_u16string().size() + x.view().size();
        sink += x.to_int() + x.to_uint() + (size_t)x.to_double() + x.to_bool();
        sink += x.trim().size() + x.to_upper().size() + x.left(2).size() + x.split('a').size() + x.tokenize().size();
        sink += (x + x).size() + (x + "z").size() + ST::format("{}|{>8}", x, x).size();
        { ST::string_stream ss; ss << x; sink += ss.size(); }
        { std::ostringstream os; os << x; sink += os.str().size(); }
        sink += ST::hex_encode(x.to_utf8()).size() + ST::base64_encode(x.to_utf8()).size();
        for (auto it = x.begin(); it != x.end(); ++it) sink += (unsigned char)*it;
        // the remaining public const members of ST::string (coq/Mem/ApiCoverage.v proves the list complete
        // against the inventory harvested from the headers' AST)
        sink += x.after_first('a').size() + x.after_last('a').size() + x.before_first('a').size() + x.before_last('a').size();
        sink += (x.empty() ? 0 : (unsigned char)x.at(0)) + (unsigned char)x.back() + (unsigned char)x.front();
        sink += size_t(x.c_str()[0]) + size_t(x.data()[0]) + size_t(x.u8_str()[0]);
        sink += size_t(x.cend() - x.cbegin()) + size_t(x.crend() - x.crbegin()) + size_t(x.rend() - x.rbegin()) + size_t(x.end() - x.begin());
        sink += x.compare_ni(x, 2) + x.right(2).size() + x.replace("a", "bb").size() + x.substr(1, 2).size() + x.to_lower().size();
        sink += x.trim_left().size() + x.trim_right().size();
        { ST::char_buffer b; x.to_buffer(b); sink += b.size(); ST::utf16_buffer u; x.to_buffer(u); sink += u.size(); }
        sink += size_t(x.to_float()) + x.to_int64() + x.to_uint64() + x.to_long() + x.to_long_long() + x.to_short();
        sink += x.to_ulong() + x.to_ulong_long() + x.to_ushort();
        sink += x.to_std_u32string().size() + x.to_std_u8string().size() + x.to_std_wstring().size();
        sink += x.to_path().native().size() + x.to_utf8().size();
        static volatile size_t g_sink; g_sink = sink;
    }

    void apply(const std::vector<std::string> &f)
    {
        const std::string &op = f[0];
        int o = atoi(f[1].c_str());
        auto idx = [&](int k) { return atoi(f[k].c_str()); };
        if (op == "new") { Block<char> d = units<char>(f[2]); new (mem[o]) S(S::from_validated(d.data(), d.size())); live[o] = true; }
        else if (op == "reads") { battery(at(o)); }
        else if (op == "readsweep") {
            // every const member and free function of the battery, with the k-th allocation of the whole battery made
            // to fail, for k = 0, 1, 2, ... until a run completes: each run must end normally or with std::bad_alloc
            // (a noexcept function that allocates would end the process), the string must stay unchanged, and
            // nothing may be leaked (checked at the end of the case)
            S &x = at(o);
            for (long k = 0; k < 5000; ++k) {
                g_fail_in = k;
                try {
                    battery(x);
                    bool fired = (g_fail_in == -1);      // fired but swallowed (iostreams catch exceptions): go on
                    g_fail_in = -1;
                    if (!fired) { if (getenv("VERIF_DEBUG")) fprintf(stderr, "readsweep: %ld faulted runs\n", k); break; }
                }
                catch (const std::bad_alloc &) { g_fail_in = -1; }
            }
        }
        else if (op == "substr") { new (mem[o]) S(at(idx(2)).substr(i64(f[3]), u64(f[4]))); live[o] = true; }
        else if (op == "left") { new (mem[o]) S(at(idx(2)).left(u64(f[3]))); live[o] = true; }
        else if (op == "right") { new (mem[o]) S(at(idx(2)).right(u64(f[3]))); live[o] = true; }
        else if (op == "upper") { new (mem[o]) S(at(idx(2)).to_upper()); live[o] = true; }
        else if (op == "lower") { new (mem[o]) S(at(idx(2)).to_lower()); live[o] = true; }
        else if (op == "trim") { new (mem[o]) S(at(idx(2)).trim()); live[o] = true; }
        else if (op == "plus") { new (mem[o]) S(at(idx(2)) + at(idx(3))); live[o] = true; }
        else if (op == "replace") {
            Block<char> a = units<char>(f[3]), b = units<char>(f[4]);
            S from = S::from_validated(a.data(), a.size()), to = S::from_validated(b.data(), b.size());
            new (mem[o]) S(at(idx(2)).replace(from, to)); live[o] = true;
        }
        else if (op == "replace_self") { S &x = at(idx(2)); new (mem[o]) S(x.replace(x, x)); live[o] = true; }
        else if (op == "utf8") { new (mem[o]) S(S::from_validated(at(idx(2)).to_utf8())); live[o] = true; }
        else if (op == "before_first") { new (mem[o]) S(at(idx(2)).before_first(char(u64(f[3])))); live[o] = true; }
        else if (op == "after_last") { new (mem[o]) S(at(idx(2)).after_last(char(u64(f[3])))); live[o] = true; }
        else if (op == "split0") {   // first piece of split(char)
            std::vector<S> v = at(idx(2)).split(char(u64(f[3])));
            new (mem[o]) S(std::move(v[0])); live[o] = true;
        }
        // ---- results built through temporaries (several allocations): codecs, formatting, conversions, streams
        else if (op == "hexenc") { new (mem[o]) S(ST::hex_encode(at(idx(2)).to_utf8())); live[o] = true; }
        else if (op == "b64enc") { new (mem[o]) S(ST::base64_encode(at(idx(2)).to_utf8())); live[o] = true; }
        else if (op == "hexrt") { new (mem[o]) S(S::from_validated(ST::hex_decode(ST::hex_encode(at(idx(2)).to_utf8())))); live[o] = true; }
        else if (op == "fmt") { const S &x = at(idx(2)); new (mem[o]) S(ST::format("{}|{>8}", x, x)); live[o] = true; }
        else if (op == "via16") { new (mem[o]) S(S::from_utf16(at(idx(2)).to_utf16())); live[o] = true; }
        else if (op == "via32") { new (mem[o]) S(S::from_utf32(at(idx(2)).to_utf32())); live[o] = true; }
        else if (op == "sstr") { const S &x = at(idx(2)); ST::string_stream ss; int reps = atoi(f[3].c_str());
                                 for (int i = 0; i < reps; ++i) ss << x << 12345; new (mem[o]) S(ss.to_string()); live[o] = true; }
        // ---- results held BY REFERENCE, and arguments passed as plain lvalues
        else if (op == "utf8ref") {
            // const char_buffer &b = s.to_utf8(): whatever b is bound to must be independent of s from then on
            S &x = at(o);
            const ST::char_buffer &b = x.to_utf8();
            std::string before(b.data(), b.size());
            Block<char> d = units<char>(f[2]);
            x = ST::char_buffer(d.data(), d.size());            // the source gets a new value
            bool same = before.size() == b.size() && memcmp(before.data(), b.data(), b.size()) == 0 && b.data()[b.size()] == 0;
            { NoWindow nw; extra = same ? ",ref=ok" : ",ref=changed"; }
        }
        else if (op == "fvlv") {
            // from_validated(buf) / set_validated(buf) with a NON-const lvalue buffer: the argument keeps its value
            ST::char_buffer buf = at(idx(2)).to_utf8();
            new (mem[o]) S(S::from_validated(buf)); live[o] = true;
            { NoWindow nw; extra = ",arg=" + hex(buf); }
        }
        else if (op == "svlv") {
            ST::char_buffer buf = at(idx(2)).to_utf8();
            at(o).set_validated(buf);
            { NoWindow nw; extra = ",arg=" + hex(buf); }
        }
        // ---- the static constructors from numbers (results of 16 characters and more are heap allocated)
        else if (op == "fromint") {
            const std::string &ty = f[2]; long long v = i64(f[3]); int base = atoi(f[4].c_str());
            if (ty == "short") new (mem[o]) S(S::from_int(short(v), base));
            else if (ty == "int") new (mem[o]) S(S::from_int(int(v), base));
            else if (ty == "long") new (mem[o]) S(S::from_int(long(v), base));
            else new (mem[o]) S(S::from_int((long long)v, base));
            live[o] = true;
        }
        else if (op == "fromuint") {
            const std::string &ty = f[2]; unsigned long long v = u64(f[3]); int base = atoi(f[4].c_str());
            if (ty == "ushort") new (mem[o]) S(S::from_uint((unsigned short)v, base, true));
            else if (ty == "uint") new (mem[o]) S(S::from_uint((unsigned int)v, base, true));
            else if (ty == "ulong") new (mem[o]) S(S::from_uint((unsigned long)v, base, true));
            else new (mem[o]) S(S::from_uint(v, base, true));
            live[o] = true;
        }
        else if (op == "frombool") { new (mem[o]) S(S::from_bool(atoi(f[2].c_str()) != 0)); live[o] = true; }
        else if (op == "sfill") { new (mem[o]) S(S::fill(u64(f[2]), char(u64(f[3])))); live[o] = true; }
        else if (op == "extract") {
            // is >> s on a stream that rethrows (exceptions(badbit)): a failing allocation anywhere inside the extraction
            // reaches the caller as std::bad_alloc and the target keeps its value
            std::istringstream *is;
            { NoWindow nw; Block<char> d = units<char>(f[2]); is = new std::istringstream(std::string(d.data(), d.size())); is->exceptions(std::ios_base::badbit); }
            try { *is >> at(o); } catch (...) { { NoWindow nw; delete is; } throw; }
            { NoWindow nw; delete is; }
        }
        else if (op == "empty") { new (mem[o]) S(); live[o] = true; }
        else if (op == "copy") { new (mem[o]) S(at(idx(2))); live[o] = true; }
        else if (op == "mctor") { new (mem[o]) S(std::move(at(idx(2)))); live[o] = true; }
        else if (op == "asg") { at(o) = at(idx(2)); }
        else if (op == "masg") { S &src = at(idx(2)); at(o) = std::move(src); }
        else if (op == "set") { Block<char> d = units<char>(f[2]); at(o) = ST::char_buffer(d.data(), d.size()); }
        else if (op == "append") { at(o) += at(idx(2)); }
        // ---- self-referential calls through the const char* / string_view glue: the argument is a proper sub-range
        //      of the target's own bytes
        else if (op == "selfset") { S &x = at(o); x.set(x.c_str() + u64(f[2]), u64(f[3])); }
        else if (op == "selfview") { S &x = at(o); x.set(x.view(u64(f[2]), u64(f[3]))); }
        else if (op == "selfasg") { S &x = at(o); x = x.c_str() + u64(f[2]); }
        else if (op == "selfappend") { S &x = at(o); x += x.c_str() + u64(f[2]); }
        else if (op == "clear") { at(o).clear(); }
        else if (op == "del") { kill(o); }
        // ---- operations that throw (C18): the exception propagates to run()
        else if (op == "setfail") {          // rvalue char_buffer with ill-formed UTF-8 under check_validity
            Block<char> d = units<char>(f[2]);
            ST::char_buffer arg(d.data(), d.size());
            try { at(o) = std::move(arg); } catch (...) { { NoWindow nw; extra = ",arg=" + hex(arg); } throw; }
            extra = ",arg=" + hex(arg);
        }
        else if (op == "setmfail") {         // set(char_buffer &&, check_validity)
            Block<char> d = units<char>(f[2]);
            ST::char_buffer arg(d.data(), d.size());
            try { at(o).set(std::move(arg), ST::check_validity); } catch (...) { { NoWindow nw; extra = ",arg=" + hex(arg); } throw; }
            extra = ",arg=" + hex(arg);
        }
        else if (op == "ctorbuffail") {      // string(char_buffer &&, check_validity)
            Block<char> d = units<char>(f[2]);
            ST::char_buffer arg(d.data(), d.size());
            try { S tmp(std::move(arg), ST::check_validity); (void)tmp; } catch (...) { { NoWindow nw; extra = ",arg=" + hex(arg); } throw; }
            extra = ",arg=" + hex(arg);
        }
        else if (op == "fmtmovefail") {      // a failing format call whose argument is passed as an rvalue: the pool string itself
            const std::string &k = f[2];
            S &x = at(o);
            if (k == "unterminated") { S r = ST::format("abc{", std::move(x)); (void)r; }
            else if (k == "badchar") { S r = ST::format("{!}", std::move(x)); (void)r; }
            else if (k == "missing") { S r = ST::format("{}{}", std::move(x)); (void)r; }
            else if (k == "index") { S r = ST::format("{&3}", std::move(x), 1); (void)r; }
            else if (k == "badutf8") { S r = ST::format("{}\xC3", std::move(x)); (void)r; }
            else if (k == "latin1") { S r = ST::format_latin_1("{}{}", std::move(x)); (void)r; }
            else if (k == "printf") { char *mb = nullptr; size_t ms = 0; FILE *fp = open_memstream(&mb, &ms);
                                      try { ST::printf(fp, "{}{", std::move(x)); } catch (...) { fclose(fp); free(mb); throw; }
                                      fclose(fp); free(mb); }
            else if (k == "writef") { std::ostringstream os; ST::writef(os, "{}{}", std::move(x)); }
            else { fprintf(stderr, "h_mem: unknown fmtmovefail kind %s\n", k.c_str()); exit(2); }
        }
        else if (op == "fmtmoveuser") {      // a user-defined argument type whose formatter takes it BY VALUE, passed as an rvalue
            Block<char> d = units<char>(f[2]);
            ByValArg arg{ST::string::from_validated(d.data(), d.size())};
            const std::string &k = f[3];
            try {
                if (k == "missing") { S r = ST::format("{}{}", std::move(arg)); (void)r; }
                else if (k == "later") { S r = ST::format("{} {!}", std::move(arg), 1); (void)r; }
                else { S r = ST::format("{}{", std::move(arg)); (void)r; }
            } catch (...) { { NoWindow nw; extra = ",arg=" + hex(arg.s); } throw; }
            { NoWindow nw; extra = ",arg=" + hex(arg.s); }
        }
        else if (op == "fmtmovestd") {       // the same with a std::string rvalue argument
            Block<char> d = units<char>(f[2]);
            std::string arg(d.data(), d.size());
            const std::string &k = f[3];
            try {
                if (k == "missing") { S r = ST::format("{}{}", std::move(arg)); (void)r; }
                else { S r = ST::format("{}{", std::move(arg)); (void)r; }
            } catch (...) { { NoWindow nw; extra = ",arg=" + hex(ST::char_buffer(arg.data(), arg.size())); } throw; }
            extra = ",arg=" + hex(ST::char_buffer(arg.data(), arg.size()));
        }
        else if (op == "setcfail") { Block<char> d = units<char>(f[2], 1); at(o) = d.data(); }              // operator=(const char*)
        else if (op == "ctorfail") { Block<char> d = units<char>(f[2]); S tmp(d.data(), d.size()); (void)tmp; }
        else if (op == "appfail") { at(o) += char32_t(u64(f[2])); }
        else if (op == "plusfail") { S r = at(o) + char32_t(u64(f[2])); (void)r; }
        else if (op == "set16fail") { Block<char16_t> d = units<char16_t>(f[2]); at(o) = ST::utf16_buffer(d.data(), d.size()); }
        else if (op == "set32fail") { Block<char32_t> d = units<char32_t>(f[2]); at(o).set(ST::utf32_buffer(d.data(), d.size())); }
        else if (op == "from16fail") { Block<char16_t> d = units<char16_t>(f[2]); at(o) = S::from_utf16(d.data(), d.size()); }
        else if (op == "latin1fail") { ST::char_buffer r = at(o).to_latin_1(false); (void)r; }              // char >= 0x100
        else if (op == "tobuffail" || op == "tobufvfail") {   // out-parameter conversion: result holds a previous value
            Block<char> d = units<char>(f[2]);
            ST::char_buffer result(d.data(), d.size());
            try {
                if (op == "tobuffail") at(o).to_buffer(result, false, false);
                else {
#pragma GCC diagnostic push
#pragma GCC diagnostic ignored "-Wdeprecated-declarations"
                    at(o).to_buffer(result, false, ST::check_validity);
#pragma GCC diagnostic pop
                }
            } catch (...) { { NoWindow nw; extra = ",arg=" + hex(result); } throw; }
            extra = ",arg=" + hex(result);
        }
        else if (op == "tostdfail") {
            Block<char> d = units<char>(f[2]);
            std::string result(d.data(), d.size());
            try { at(o).to_std_string(result, false, false); }
            catch (...) { { NoWindow nw; extra = ",arg=" + hex(ST::char_buffer(result.data(), result.size())); } throw; }
            extra = ",arg=" + hex(ST::char_buffer(result.data(), result.size()));
        }
        else if (op == "hexfail") { Block<char> d = units<char>(f[2]); ST::char_buffer r = ST::hex_decode(S::from_validated(d.data(), d.size())); at(o) = r; }
        else if (op == "b64fail") { Block<char> d = units<char>(f[2]); ST::char_buffer r = ST::base64_decode(S::from_validated(d.data(), d.size())); at(o) = r; }
        else if (op == "fmtfail") {
            const std::string &k = f[2];
            if (k == "unterminated") at(o) = ST::format("abc{", at(o));
            else if (k == "badchar") at(o) = ST::format("{!}", at(o));
            else if (k == "missing") at(o) = ST::format("{}{}", at(o));
            else if (k == "index") at(o) = ST::format("{&3}", at(o), 1);
            else if (k == "noarg") at(o) = ST::format("{}");
            else if (k == "badutf8") at(o) = ST::format("{}\xC3", at(o));
        }
        else { fprintf(stderr, "h_mem: unknown string op %s\n", op.c_str()); exit(2); }
    }

    std::string run(const Args &a)
    {
        std::vector<std::string> ops = split_on(a[1], ';');
        long fail_step = -1, fail_k = -1;
        if (a.size() > 2 && a[2].compare(0, 7, "failat=") == 0) {
            std::vector<std::string> fk = split_on(a[2].substr(7), '@');
            fail_k = atol(fk[0].c_str());
            fail_step = atol(fk[1].c_str());
        }
        long base = g_live_arr;
        std::ostringstream out;
        for (size_t s = 0; s < ops.size(); ++s) {
            std::vector<std::string> f = split_on(ops[s], ',');
            std::string r = "ok";
            extra.clear();
            g_window = true;
            g_window_allocs = 0;
            g_fail_in = (long(s) == fail_step) ? fail_k : -1;
            try {
                apply(f);
            } catch (const std::bad_alloc &) { r = "bad_alloc"; }
            catch (const ST::unicode_error &) { r = "unicode_error"; }
            catch (const ST::codec_error &) { r = "codec_error"; }
            catch (const ST::bad_format &) { r = "bad_format"; }
            catch (const std::out_of_range &) { r = "out_of_range"; }
            catch (const std::invalid_argument &) { r = "invalid_argument"; }
            g_window = false;
            g_fail_in = -1;
            out << (s ? "|" : "") << "r=" << r << extra << observe();
        }
        for (int i = 0; i < pool; ++i)
            if (live[i]) kill(i);
        out << "|leak=" << (g_live_arr - base);
        return out.str();
    }
};

static std::string dispatch(const std::string &op, const Args &a)
{
    if (op == "str") { StrPool p(atoi(a[0].c_str())); return p.run(a); }
    if (op == "ss") { StreamPool p(atoi(a[0].c_str())); return p.run(a); }
    if (op == "buf") {
        int pool = atoi(a[1].c_str());
        if (a[0] == "c") { BufPool<char> p(pool); return p.run(a); }
        if (a[0] == "w") { BufPool<wchar_t> p(pool); return p.run(a); }
        if (a[0] == "u16") { BufPool<char16_t> p(pool); return p.run(a); }
        if (a[0] == "u32") { BufPool<char32_t> p(pool); return p.run(a); }
    }
    fprintf(stderr, "h_mem: unknown op %s\n", op.c_str());
    exit(2);
}

int main(int argc, char **argv) { return run_main(argc, argv, dispatch); }
