// harness/h_cmpfind.cpp — C06 (comparison, hashes, case maps) and C07 (searching) through the
// public API only.  Texts are built with ST::string::from_validated(ptr, len) from exact-size
// unterminated blocks (embedded NULs and bytes >= 0x80 survive); (pointer,length) needles are
// exact-size unterminated blocks; C-string overloads get a NUL-terminated copy.
// Comparison results are printed as SIGNS only.
#include "common.h"
using namespace vh;

static int sg(long long v) { return v < 0 ? -1 : (v > 0 ? 1 : 0); }
static ST::string mk(const Block<char> &b) { return ST::string::from_validated(b.data(), b.size()); }
static ST::case_sensitivity_t csof(const std::string &t) { return t == "i" ? ST::case_insensitive : ST::case_sensitive; }

// ---------------------------------------------------------------- C06
template <class T>
static std::string do_cmp(const Args &a)
{
    Block<T> l = units<T>(a[1]);
    Block<T> r = units<T>(a[3]);
    size_t ls = u64(a[2]), rs = u64(a[4]);
    int v = a.size() > 5 ? ST::buffer<T>::compare(l.data(), ls, r.data(), rs, u64(a[5]))
                         : ST::buffer<T>::compare(l.data(), ls, r.data(), rs);
    return std::to_string(sg(v));
}

template <class T>
static std::string do_buf(const Args &a)
{
    Block<T> ab = units<T>(a[1]);
    Block<T> bb = units<T>(a[2] == "-" ? std::string(".") : a[2]);
    Block<T> bz = units<T>(a[2], 1);
    size_t n = u64(a[3]);
    ST::buffer<T> A(ab.data(), ab.size()), B(bb.data(), bb.size());
    const T *z = bz.data();
    std::ostringstream o;
    o << "c=" << sg(A.compare(B)) << " cz=" << sg(A.compare(z))
      << " n=" << sg(A.compare_n(B, n)) << " nz=" << sg(A.compare_n(z, n))
      << " eq=" << (A == B ? 1 : 0) << " ne=" << (A != B ? 1 : 0) << " lt=" << (A < B ? 1 : 0);
    return o.str();
}

static std::string do_str(const Args &a)
{
    Block<char> ab = units<char>(a[0]);
    Block<char> bb = units<char>(a[1] == "-" ? std::string(".") : a[1]);
    Block<char> bz = units<char>(a[1], 1);
    size_t n = u64(a[2]);
    ST::string A = mk(ab), B = mk(bb);
    const char *z = bz.data();
    std::ostringstream o;
    o << "c=" << sg(A.compare(B)) << " cz=" << sg(A.compare(z))
      << " ci=" << sg(A.compare_i(B)) << " ciz=" << sg(A.compare_i(z))
      << " cI=" << sg(A.compare(B, ST::case_insensitive)) << " cIz=" << sg(A.compare(z, ST::case_insensitive))
      << " n=" << sg(A.compare_n(B, n)) << " nz=" << sg(A.compare_n(z, n))
      << " ni=" << sg(A.compare_ni(B, n)) << " niz=" << sg(A.compare_ni(z, n))
      << " eq=" << (A == B ? 1 : 0) << " ne=" << (A != B ? 1 : 0) << " lt=" << (A < B ? 1 : 0)
      << " eqz=" << (A == z ? 1 : 0) << " nez=" << (A != z ? 1 : 0)
      << " li=" << (ST::less_i()(A, B) ? 1 : 0) << " ei=" << (ST::equal_i()(A, B) ? 1 : 0);
    return o.str();
}

static std::string do_tri(const Args &a)
{
    Block<char> b0 = units<char>(a[0]), b1 = units<char>(a[1]), b2 = units<char>(a[2]);
    ST::string s[3] = { mk(b0), mk(b1), mk(b2) };
    static const int P[6][2] = { {0, 1}, {1, 0}, {1, 2}, {2, 1}, {0, 2}, {2, 0} };
    std::ostringstream o;
    o << "cs=";
    for (int k = 0; k < 6; ++k) o << (k ? "," : "") << sg(s[P[k][0]].compare(s[P[k][1]]));
    o << " ci=";
    for (int k = 0; k < 6; ++k) o << (k ? "," : "") << sg(s[P[k][0]].compare_i(s[P[k][1]]));
    return o.str();
}

static std::string do_hash(const Args &a)
{
    Block<char> b0 = units<char>(a[0]), b1 = units<char>(a[1]);
    ST::string A = mk(b0), B = mk(b1);
    size_t h = ST::hash()(A), hi = ST::hash_i()(A);
    std::ostringstream o;
    o << "h=" << (unsigned long long)h << " hi=" << (unsigned long long)hi
      << " he=" << (h == ST::hash()(B) ? 1 : 0) << " hie=" << (hi == ST::hash_i()(B) ? 1 : 0)
      << " sh=" << (std::hash<ST::string>()(A) == h ? 1 : 0);
    return o.str();
}

static std::string do_case(const Args &a)
{
    Block<char> b0 = units<char>(a[0]);
    ST::string A = mk(b0);
    ST::string U = A.to_upper(), L = A.to_lower();
    std::ostringstream o;
    o << "up=" << hex(U) << " lo=" << hex(L)
      << " ut=" << (U.c_str()[U.size()] == 0 ? 1 : 0) << " lt=" << (L.c_str()[L.size()] == 0 ? 1 : 0);
    return o.str();
}

// ---------------------------------------------------------------- C07
struct Needle {
    Block<char> p;      // exact-size, unterminated (pointer,length form); null when "-"
    Block<char> z;      // NUL-terminated copy (C-string form); null when "-"
    ST::string s;       // ST::string form (empty when "-")
    size_t count;       // count passed with p (1 with the null pointer: the null guard must fire)
    bool one;           // single unit: the char overload applies
    char ch;
    std::vector<char> rb, db;   // the real bytes, and decoy bytes of the same length (letters / digits shifted by one)
    bool isnull;
    explicit Needle(const std::string &tok)
        : p(units<char>(tok)), z(units<char>(tok, 1)),
          s(tok == "-" ? ST::string() : ST::string::from_validated(p.data(), p.size())),
          count(tok == "-" ? 1 : p.size()), one(tok != "-" && p.size() == 1), ch(one ? p.data()[0] : 0), isnull(tok == "-")
    {
        if (!isnull) {
            rb.assign(p.p, p.p + p.n);
            db = rb;
            for (char &c : db) {
                unsigned char v = static_cast<unsigned char>(c);
                if ((v >= 'a' && v < 'z') || (v >= 'A' && v < 'Z') || (v >= '0' && v < '9')) c = char(v + 1);
                else if (v == 'z' || v == 'Z' || v == '9') c = char(v - 1);
            }
        }
    }
    // the same argument objects, at the same addresses, holding other content: a search that remembers its previous
    // needle by address and length goes wrong on the real call that follows
    void put(const std::vector<char> &b)
    {
        if (isnull || b.empty()) return;
        memcpy(p.p, b.data(), b.size());
        memcpy(z.p, b.data(), b.size());
        s = ST::string::from_validated(b.data(), b.size());
        if (one) ch = b[0];
    }
    void decoy() { if (db != rb) put(db); }
    void real() { if (db != rb) put(rb); }
};
// evaluate `expr` once on the decoy content (result discarded), then on the real content
#define PAIRED(n, expr) ((n).decoy(), (void)(expr), (n).real(), (expr))

struct Res { long long p, s, z, c; bool one; };

static Res find_all(const ST::string &H, Needle &n, size_t start, ST::case_sensitivity_t cs)
{
    Res r;
    r.p = PAIRED(n, H.find(start, n.p.data(), n.count, cs));
    r.s = PAIRED(n, H.find(start, n.s, cs));
    r.z = PAIRED(n, H.find(start, n.z.data(), cs));
    r.one = n.one;
    r.c = n.one ? (long long)PAIRED(n, H.find(start, n.ch, cs)) : -2;
    return r;
}
static Res find0_all(const ST::string &H, Needle &n, ST::case_sensitivity_t cs)
{
    Res r;
    r.p = PAIRED(n, H.find(n.p.data(), n.count, cs));
    r.s = PAIRED(n, H.find(n.s, cs));
    r.z = PAIRED(n, H.find(n.z.data(), cs));
    r.one = n.one;
    r.c = n.one ? (long long)PAIRED(n, H.find(n.ch, cs)) : -2;
    return r;
}
static Res findl_all(const ST::string &H, Needle &n, size_t max, ST::case_sensitivity_t cs)
{
    Res r;
    r.p = PAIRED(n, H.find_last(max, n.p.data(), n.count, cs));
    r.s = PAIRED(n, H.find_last(max, n.s, cs));
    r.z = PAIRED(n, H.find_last(max, n.z.data(), cs));
    r.one = n.one;
    r.c = n.one ? (long long)PAIRED(n, H.find_last(max, n.ch, cs)) : -2;
    return r;
}
static Res findl0_all(const ST::string &H, Needle &n, ST::case_sensitivity_t cs)
{
    Res r;
    r.p = PAIRED(n, H.find_last(n.p.data(), n.count, cs));
    r.s = PAIRED(n, H.find_last(n.s, cs));
    r.z = PAIRED(n, H.find_last(n.z.data(), cs));
    r.one = n.one;
    r.c = n.one ? (long long)PAIRED(n, H.find_last(n.ch, cs)) : -2;
    return r;
}
struct Has { int cp, cs_, cz, cc, sws, swz, ews, ewz; };
static Has has_all(const ST::string &H, Needle &n, ST::case_sensitivity_t cs)
{
    Has r;
    r.cp = PAIRED(n, H.contains(n.p.data(), n.count, cs) ? 1 : 0);
    r.cs_ = PAIRED(n, H.contains(n.s, cs) ? 1 : 0);
    r.cz = PAIRED(n, H.contains(n.z.data(), cs) ? 1 : 0);
    r.cc = n.one ? (PAIRED(n, H.contains(n.ch, cs)) ? 1 : 0) : -2;
    r.sws = PAIRED(n, H.starts_with(n.s, cs) ? 1 : 0);
    r.swz = PAIRED(n, H.starts_with(n.z.data(), cs) ? 1 : 0);
    r.ews = PAIRED(n, H.ends_with(n.s, cs) ? 1 : 0);
    r.ewz = PAIRED(n, H.ends_with(n.z.data(), cs) ? 1 : 0);
    return r;
}

static std::string pr(const char *suffix, const Res &r)
{
    std::ostringstream o;
    o << "p" << suffix << "=" << r.p << " s" << suffix << "=" << r.s << " z" << suffix << "=" << r.z << " c" << suffix << "=";
    if (r.one) o << r.c; else o << "x";
    return o.str();
}

static std::string do_find(const Args &a, bool last)
{
    ST::case_sensitivity_t cs = csof(a[0]);
    Block<char> hb = units<char>(a[1]);
    ST::string H = mk(hb);
    Needle n(a[2]);
    size_t pos = u64(a[3]);
    Res r = last ? findl_all(H, n, pos, cs) : find_all(H, n, pos, cs);
    Res r0 = last ? findl0_all(H, n, cs) : find0_all(H, n, cs);
    return pr("", r) + " " + pr("0", r0);
}

static std::string do_has(const Args &a)
{
    ST::case_sensitivity_t cs = csof(a[0]);
    Block<char> hb = units<char>(a[1]);
    ST::string H = mk(hb);
    Needle n(a[2]);
    Has r = has_all(H, n, cs);
    std::ostringstream o;
    o << "cp=" << r.cp << " cs=" << r.cs_ << " cz=" << r.cz << " cc=";
    if (n.one) o << r.cc; else o << "x";
    o << " sws=" << r.sws << " swz=" << r.swz << " ews=" << r.ews << " ewz=" << r.ewz;
    return o.str();
}

// digest of a long run of small integers; the OCaml driver implements the same arithmetic
struct Digest {
    uint64_t h1 = 1, h2 = 1, n = 0, hits = 0;
    void push(long long v)
    {
        uint64_t x = (uint64_t)(v + 2);
        h1 = (h1 * 1000003ULL + x) % 2147483647ULL;
        h2 = (h2 * 999983ULL + x) % 4294967291ULL;
        ++n;
    }
    void push(const Res &r)
    {
        push(r.p); push(r.s); push(r.z);
        if (r.one) push(r.c);
        if (r.p >= 0) ++hits;
    }
};

// needle number k over the alphabet: lengths 1..maxlen, then base-|alpha| digits, most significant first
static std::string needle_tok(const std::string &alpha, size_t k)
{
    size_t A = alpha.size() / 2, len = 1, block = A;
    while (k >= block) { k -= block; block *= A; ++len; }
    std::string t(len * 2, '0');
    for (size_t i = len; i-- > 0;) {
        size_t d = k % A;
        k /= A;
        t[2 * i] = alpha[2 * d];
        t[2 * i + 1] = alpha[2 * d + 1];
    }
    return t;
}

static std::vector<size_t> positions(size_t size)
{
    std::vector<size_t> v;
    for (size_t i = 0; i <= size + 1; ++i) v.push_back(i);
    v.push_back(size_t(1) << 63);
    v.push_back(SIZE_MAX);
    return v;
}

// sweep <h> <alphabet> <lo> <hi>: needles number lo..hi-1, both case modes, every position
static std::string do_sweep(const Args &a)
{
    Block<char> hb = units<char>(a[0]);
    ST::string H = mk(hb);
    size_t lo = u64(a[2]), hi = u64(a[3]);
    std::vector<size_t> pos = positions(H.size());
    Digest d;
    for (size_t k = lo; k < hi; ++k) {
        Needle n(needle_tok(a[1], k));
        for (int c = 0; c < 2; ++c) {
            ST::case_sensitivity_t cs = c ? ST::case_insensitive : ST::case_sensitive;
            for (size_t p : pos) d.push(find_all(H, n, p, cs));
            for (size_t p : pos) d.push(findl_all(H, n, p, cs));
            Has r = has_all(H, n, cs);
            d.push(r.cp); d.push(r.cs_); d.push(r.cz);
            if (n.one) d.push(r.cc);
            d.push(r.sws); d.push(r.swz); d.push(r.ews); d.push(r.ewz);
        }
    }
    std::ostringstream o;
    o << "d=" << d.h1 << ":" << d.h2 << " hits=" << d.hits << " n=" << d.n;
    return o.str();
}

static std::string do_bigfind(size_t n);

static std::string dispatch(const std::string &op, const Args &a)
{
    if (op == "bigfind") return do_bigfind(size_t(u64(a[0])));
    if (op == "cmp" || op == "buf") {
        const std::string &t = a[0];
        if (op == "cmp") {
            if (t == "c") return do_cmp<char>(a);
            if (t == "w") return do_cmp<wchar_t>(a);
            if (t == "h") return do_cmp<char16_t>(a);
            if (t == "u") return do_cmp<char32_t>(a);
        } else {
            if (t == "c") return do_buf<char>(a);
            if (t == "w") return do_buf<wchar_t>(a);
            if (t == "h") return do_buf<char16_t>(a);
            if (t == "u") return do_buf<char32_t>(a);
        }
    }
    if (op == "str") return do_str(a);
    if (op == "tri") return do_tri(a);
    if (op == "hash") return do_hash(a);
    if (op == "case") return do_case(a);
    if (op == "find") return do_find(a, false);
    if (op == "findl") return do_find(a, true);
    if (op == "has") return do_has(a);
    if (op == "sweep") return do_sweep(a);
    fprintf(stderr, "h_cmpfind: unknown op %s\n", op.c_str());
    exit(2);
}

// searching with operands of megabytes on a thread whose stack is small (256 KiB): the stack the search needs may not
// grow with the size of its operands.  The expected index is known by construction.
struct BigArgs { size_t n; bool ok; };
static void *bigfind_thread(void *p)
{
    BigArgs *a = static_cast<BigArgs *>(p);
    std::string needle(a->n, 'q');
    for (size_t i = 0; i < needle.size(); i += 7) needle[i] = 'Z';
    std::string hay = std::string(1000, 'q') + "-" + needle + "-tail";
    for (char &c : hay) if (c == 'Z') c = 'z';
    ST::string H = ST::string::from_validated(hay.data(), hay.size());
    ST::string N = ST::string::from_validated(needle.data(), needle.size());
    a->ok = H.find(N, ST::case_insensitive) == 1001 && H.find(N) == -1 && H.find_last(N, ST::case_insensitive) == 1001
            && H.contains(N, ST::case_insensitive) && H.compare_i(H) == 0 && H.replace(N, "r", ST::case_insensitive).size() == 1000 + 1 + 1 + 5;
    return nullptr;
}
static std::string do_bigfind(size_t n)
{
    BigArgs a{n, false};
    pthread_attr_t at;
    pthread_attr_init(&at);
    pthread_attr_setstacksize(&at, 256 * 1024);
    pthread_t t;
    if (pthread_create(&t, &at, bigfind_thread, &a) != 0) return "bigfind thread-failed";
    pthread_join(t, nullptr);
    return a.ok ? "bigfind ok" : "bigfind wrong";
}

static std::string cmpfind_probe()
{
    ST::string a = ST_LITERAL("Hello, World: the QUICK brown fox"), b = ST_LITERAL("hello, world: THE quick BROWN fox");
    std::ostringstream o;
    o << a.compare(b) << "|" << a.compare_i(b) << "|" << a.find("quick", ST::case_insensitive) << "|" << a.find_last('o') << "|" << a.contains("BROWN")
      << "|" << ST::hash()(a) << "|" << ST::hash_i()(a) << "|" << hex(a.to_upper()) << "|" << hex(b.to_lower()) << "|" << a.starts_with("hello", ST::case_insensitive);
    return o.str();
}

VH_STARTUP_PROBE(cmpfind_probe)

int main(int argc, char **argv) { vh::g_decoy = true; vh::g_probe = cmpfind_probe; return run_main(argc, argv, dispatch); }
