// harness/common.h — shared by every C++ correspondence harness.
// One case per input line:  <id> <op> <args...>      (see DESIGN.md Appendix A)
// One result per case:      <id> OK <payload> | <id> THROW <type> | (driver adds ABORT/FAULT)
// Unit sequences are hex ("." = empty, "-" = null pointer); integers decimal or 0x-hex.
#pragma once
#include <cstdio>
#include <cstdlib>
#include <cstring>
#include <cerrno>
#include <cstdint>
#include <csignal>
#include <unistd.h>
#include <string>
#include <vector>
#include <sstream>
#include <fstream>
#include <iostream>
#include <stdexcept>
#include <new>
#include <thread>
#include <sys/wait.h>
#include <locale>
#include <clocale>
#include <functional>

#include <string_theory/string>
#include <string_theory/string_stream>
#include <string_theory/format>
#include <string_theory/codecs>
#include <string_theory/iostream>
#include <string_theory/stdio>

#include "gen_echo.inc"

namespace vh {

static std::string g_cur_id;
static int g_case_timeout = 5;

inline void on_alarm(int)
{
    // async-signal-safe: write + _exit
    const char *m1 = " FAULT Hang\n";
    (void)!write(1, g_cur_id.c_str(), g_cur_id.size());
    (void)!write(1, m1, strlen(m1));
    _exit(3);
}

// ---- exact-size, unterminated input blocks: any read past the range hits an ASan redzone.
// Blocks are RECYCLED by exact byte size instead of being returned to the allocator (the sanitizer would keep a freed
// block in quarantine, so no address would ever recur): the arguments of consecutive cases with operands of the same
// length therefore sit at the SAME address with different content — what a cache keyed by pointer and length
// (a remembered needle, delimiter set, table) would mistake for "the same argument as last time".
// (a fixed table, no STL container: the memory harness counts and faults operator new)
struct BlockSlot { size_t bytes; void *p; };
inline BlockSlot *block_slots() { static BlockSlot s[256]; return s; }
inline void *block_get(size_t bytes)
{
    BlockSlot *s = block_slots();
    for (int i = 0; i < 256; ++i)
        if (s[i].p && s[i].bytes == bytes) { void *q = s[i].p; s[i].p = nullptr; return q; }
    return malloc(bytes);
}
inline void block_put(void *q, size_t bytes)
{
    BlockSlot *s = block_slots();
    if (bytes <= (1u << 20))
        for (int i = 0; i < 256; ++i)
            if (!s[i].p) { s[i].p = q; s[i].bytes = bytes; return; }
    free(q);
}
// The start of the data is placed at a varying offset from the (16-byte aligned) start of the allocation: g_align
// cycles through 0..7 from case to case, so every operation is run on operands at every address alignment modulo 8
// (the end of the data still coincides with the end of the allocation).  Code that treats the unaligned head of its
// input specially (word-at-a-time loops) is wrong only for some (alignment, length) combinations.
static int g_align = 0;
template <class T>
struct Block {
    T *p = nullptr;
    size_t n = 0;
    bool null = false;
    size_t bytes = 0;          // size of the whole allocation
    void *base = nullptr;
    Block() {}
    Block(const Block &) = delete;
    Block &operator=(const Block &) = delete;
    Block(Block &&o) : p(o.p), n(o.n), null(o.null), bytes(o.bytes), base(o.base) { o.p = nullptr; o.base = nullptr; }
    ~Block() { if (base) block_put(base, bytes); }
    const T *data() const { return null ? nullptr : p; }
    size_t size() const { return n; }
};

inline int hexv(char c)
{
    if (c >= '0' && c <= '9') return c - '0';
    if (c >= 'a' && c <= 'f') return c - 'a' + 10;
    if (c >= 'A' && c <= 'F') return c - 'A' + 10;
    fprintf(stderr, "harness: bad hex digit '%c'\n", c);
    exit(2);
}

// parse hex units of sizeof(T)*2 digits each; extra = number of zero units appended (terminator)
template <class T>
Block<T> units(const std::string &tok, size_t extra = 0)
{
    Block<T> b;
    if (tok == "-") { b.null = true; return b; }
    const size_t w = sizeof(T) * 2;
    size_t n = (tok == ".") ? 0 : tok.size() / w;
    b.n = n;
    // malloc(0) may return a unique pointer: keep at least the exact byte count, never more
    const size_t off = (size_t(g_align) / sizeof(T)) * sizeof(T);      // a multiple of the element size, below 8
    const size_t payload = (n + extra) * sizeof(T) ? (n + extra) * sizeof(T) : 1;
    b.bytes = off + payload;
    b.base = block_get(b.bytes);
    b.p = reinterpret_cast<T *>(static_cast<char *>(b.base) + off);
    for (size_t i = 0; i < n; ++i) {
        uint64_t v = 0;
        for (size_t k = 0; k < w; ++k) v = (v << 4) | hexv(tok[i * w + k]);
        b.p[i] = static_cast<T>(v);
    }
    for (size_t i = 0; i < extra; ++i) b.p[n + i] = 0;
    return b;
}

template <class T>
std::string hex(const T *p, size_t n)
{
    if (n == 0) return ".";
    static const char *d = "0123456789abcdef";
    std::string s;
    s.reserve(n * sizeof(T) * 2);
    for (size_t i = 0; i < n; ++i) {
        uint64_t v = static_cast<uint64_t>(static_cast<typename std::make_unsigned<T>::type>(p[i]));
        for (int k = int(sizeof(T)) * 2 - 1; k >= 0; --k) s.push_back(d[(v >> (4 * k)) & 15]);
    }
    return s;
}
template <class T> std::string hex(const ST::buffer<T> &b) { return hex(b.data(), b.size()); }
inline std::string hex(const ST::string &s) { return hex(s.c_str(), s.size()); }
inline std::string hex(const std::string &s) { return hex(s.data(), s.size()); }

inline uint64_t u64(const std::string &tok) { return strtoull(tok.c_str(), nullptr, 0); }
inline int64_t i64(const std::string &tok) { return strtoll(tok.c_str(), nullptr, 0); }

// size/terminator facts of a returned buffer, in the common payload form
//   <hex units> size=<n> term=<0|1>
template <class T>
std::string bufinfo(const ST::buffer<T> &b)
{
    std::ostringstream o;
    o << hex(b) << " size=" << b.size() << " term=" << (b.data()[b.size()] == 0 ? 1 : 0);
    return o.str();
}

typedef std::vector<std::string> Args;
typedef std::function<std::string(const std::string &op, const Args &a)> Dispatch;

inline std::vector<std::string> split_ws(const std::string &line)
{
    std::vector<std::string> v;
    std::istringstream is(line);
    std::string t;
    while (is >> t) v.push_back(t);
    return v;
}

// ---- decoy pass (opt-in per harness): before a case runs, the same operation runs once on a DECOY input of the same
// shape — every argument that is a string of hex byte pairs with each ASCII letter / digit byte replaced by its
// neighbour — and its result is discarded.  Because input blocks are recycled by size, the real arguments then sit at
// the addresses the decoy's had, with different content: state that survives from one call to the next (a remembered
// needle, separator, delimiter table, ...) makes the real call go wrong.
static bool g_decoy = false;
inline std::string decoy_token(const std::string &t)
{
    if (t.size() < 4 || t.size() % 2) return t;
    for (char c : t) if (!isxdigit(static_cast<unsigned char>(c))) return t;
    static const char *d = "0123456789abcdef";
    std::string r = t;
    for (size_t i = 0; i + 1 < t.size(); i += 2) {
        int v = hexv(t[i]) * 16 + hexv(t[i + 1]), w = v;
        if ((v >= 'a' && v < 'z') || (v >= 'A' && v < 'Z') || (v >= '0' && v < '9')) w = v + 1;
        else if (v == 'z' || v == 'Z' || v == '9') w = v - 1;
        r[i] = d[w >> 4]; r[i + 1] = d[w & 15];
    }
    return r;
}

// The program around the library may have installed a global C++ locale of its own and selected a C locale other than
// "C": case folding, character classification and number syntax of the library are specified independently of both.
// Every harness runs with a global locale whose ctype<char> facet folds the Latin-1 letters as well, and with the
// C locale "C.UTF-8" (same decimal point, other name).
struct Latin1Ctype : std::ctype<char> {
    static bool up(unsigned char u) { return (u >= 'A' && u <= 'Z') || (u >= 0xC0 && u <= 0xDE && u != 0xD7); }
    static bool lo(unsigned char u) { return (u >= 'a' && u <= 'z') || (u >= 0xE0 && u <= 0xFE && u != 0xF7); }
    char do_tolower(char c) const override { return up(static_cast<unsigned char>(c)) ? char(static_cast<unsigned char>(c) + 32) : c; }
    char do_toupper(char c) const override { return lo(static_cast<unsigned char>(c)) ? char(static_cast<unsigned char>(c) - 32) : c; }
    const char *do_tolower(char *b, const char *e) const override { for (; b != e; ++b) *b = do_tolower(*b); return e; }
    const char *do_toupper(char *b, const char *e) const override { for (; b != e; ++b) *b = do_toupper(*b); return e; }
};
inline void install_foreign_locales()
{
    std::locale::global(std::locale(std::locale::classic(), new Latin1Ctype));
    setlocale(LC_ALL, "C.UTF-8");
    // libstdc++ builds per-locale caches on first use (with new[]): do that now, not inside a case that counts blocks
    { std::ostringstream o; o << 1 << ' ' << 1.5 << ' ' << true << ' ' << 12345678901234ULL; std::istringstream i("1 2.5"); int a; double b; i >> a >> b; }
    { std::wostringstream o; o << 1 << L' ' << 1.5; }
}

// ---- shutdown probe: `<harness> --shutdown-probe` registers an exit handler and a thread-local object BEFORE the
// library is used for the first time, uses the library (a harness-specific probe function returning a digest of its
// results), returns from main, and uses it again from the exit handler and from the thread-local object's destructor —
// i.e. after every function-local static and thread_local object the library created has been destroyed.  The results
// must be the same and no storage may have gone away underneath (ASan).  The case `shutdown` runs that in a fresh process.
typedef std::string (*ProbeFn)();
static ProbeFn g_probe = nullptr;
static std::string g_probe_first;
inline void probe_at_exit()
{
    std::string again = g_probe();
    if (again != g_probe_first) { const char *m = "shutdown probe: results differ during shutdown\n"; (void)!write(2, m, strlen(m)); _exit(97); }
}
struct ProbeAtThreadExit { ~ProbeAtThreadExit() { std::string again = g_probe(); if (again != g_probe_first) _exit(98); } };
inline int run_shutdown_probe()
{
    if (!g_probe) return 0;
    atexit(probe_at_exit);                        // registered before the library's first use: runs after its statics are gone
    g_probe_first = g_probe();
    std::thread t([] { thread_local ProbeAtThreadExit guard; (void)&guard; std::string r = g_probe(); if (r != g_probe_first) _exit(96); });
    t.join();
    return 0;
}
// ---- start-up probe: with VH_STARTUP_PROBE set, a constructor function of the harness with an early priority uses the
// library during static initialisation, before main and before any dynamically initialised object of the library; `--startup-probe`
// then compares that result with the same probe run from main.  Only the child process started by the `shutdown` case
// sets the variable, so that in every other process the library's first use is inside main.
static char g_startup_buf[65536];
static bool g_startup_ran = false;
// priority 150: before every namespace-scope object with a dynamic initialiser, including those the library defines
#define VH_STARTUP_PROBE(fn) \
    __attribute__((constructor(150))) static void vh_startup_probe_ctor() \
    { \
        if (getenv("VH_STARTUP_PROBE")) { \
            std::string r = fn(); \
            snprintf(vh::g_startup_buf, sizeof vh::g_startup_buf, "%s", r.c_str()); \
            vh::g_startup_ran = true; \
        } \
    }
inline int run_startup_probe()
{
    if (!g_probe) return 0;
    if (!g_startup_ran) return 94;
    return g_probe() == std::string(g_startup_buf) ? 0 : 95;
}
inline std::string run_shutdown_case()
{
    char exe[4096];
    ssize_t n = readlink("/proc/self/exe", exe, sizeof exe - 1);
    if (n <= 0) return "shutdown rc=-1";
    exe[n] = 0;
    std::string cmd = std::string(exe) + " --shutdown-probe >/dev/null 2>&1";
    int rc = system(cmd.c_str());
    if (rc == 0) {
        cmd = std::string("VH_STARTUP_PROBE=1 ") + exe + " --startup-probe >/dev/null 2>&1";
        rc = system(cmd.c_str());
    }
    std::ostringstream o;
    o << "shutdown rc=" << (WIFEXITED(rc) ? WEXITSTATUS(rc) : 1000 + WTERMSIG(rc));
    return o.str();
}

// main loop: argv[1] = case file, argv[2] = index of first line to run (default 0)
inline int run_main(int argc, char **argv, const Dispatch &dispatch)
{
    if (argc > 1 && std::string(argv[1]) == "--shutdown-probe") return run_shutdown_probe();
    if (argc > 1 && std::string(argv[1]) == "--startup-probe") return run_startup_probe();
    if (argc < 2) { fprintf(stderr, "usage: %s cases [from] [timeout]\n", argv[0]); return 2; }
    size_t from = argc > 2 ? strtoul(argv[2], nullptr, 10) : 0;
    if (argc > 3) g_case_timeout = atoi(argv[3]);
    std::ifstream in(argv[1]);
    std::string line;
    size_t idx = 0;
    signal(SIGALRM, on_alarm);
    setvbuf(stdout, nullptr, _IOLBF, 0);
    install_foreign_locales();
    while (std::getline(in, line)) {
        if (idx++ < from) continue;
        if (line.empty() || line[0] == '#') continue;
        std::vector<std::string> tok = split_ws(line);
        if (tok.size() < 2) continue;
        g_cur_id = tok[0];
        fprintf(stderr, "@@CASE %s\n", tok[0].c_str());
        fflush(stderr);
        Args a(tok.begin() + 2, tok.end());
        std::string out;
        alarm(g_case_timeout);
        g_align = int(idx % 8);
        errno = ERANGE;        // whatever an earlier call left in errno must not matter to the next one
        if (g_decoy && tok[1].find("enum") == std::string::npos && tok[1].find("digest") == std::string::npos) {
            Args dcy;
            for (const std::string &t : a) dcy.push_back(decoy_token(t));
            if (dcy != a) { try { (void)dispatch(tok[1], dcy); } catch (...) { } }
        }
        try {
            out = "OK " + (tok[1] == "shutdown" ? run_shutdown_case() : dispatch(tok[1], a));
        } catch (const ST::unicode_error &) {
            out = "THROW unicode_error";
        } catch (const ST::codec_error &) {
            out = "THROW codec_error";
        } catch (const ST::bad_format &) {
            out = "THROW bad_format";
        } catch (const std::out_of_range &) {
            out = "THROW out_of_range";
        } catch (const std::invalid_argument &) {
            out = "THROW invalid_argument";
        } catch (const std::bad_alloc &) {
            out = "THROW bad_alloc";
        } catch (const std::exception &e) {
            out = std::string("THROW other:") + e.what();
        }
        alarm(0);
        printf("%s %s\n", tok[0].c_str(), out.c_str());
        fflush(stdout);
    }
    return 0;
}

}  // namespace vh
