// harness/h_slice.cpp — C08 / C09: slicing, before/after, split, tokenize, replace, fill through
// the public API only.  Case language: see ocaml/drv_slice.ml.
// Subjects and ST::string arguments are built with ST::string::from_validated from exact-size
// blocks (any bytes, embedded NUL, bytes >= 0x80); C-string arguments are exact-size
// NUL-terminated copies (one terminator, nothing behind it).
#include "common.h"
using namespace vh;

static ST::string mk(const std::string &tok)
{
    Block<char> b = units<char>(tok);
    return ST::string::from_validated(b.data(), b.size());
}

static std::string info(const ST::string &r)
{
    std::ostringstream o;
    o << hex(r) << " size=" << r.size() << " term=" << (r.c_str()[r.size()] == 0 ? 1 : 0);
    return o.str();
}

static std::string vinfo(const std::vector<ST::string> &v)
{
    std::ostringstream o;
    o << "n=" << v.size();
    for (const ST::string &p : v) {
        if (p.c_str()[p.size()] != 0) o << " !unterminated";
        o << " " << hex(p);
    }
    return o.str();
}

// a C string argument: "-" = nullptr, otherwise bytes + exactly one terminator
struct CStr {
    Block<char> b;
    explicit CStr(const std::string &tok) : b(units<char>(tok, 1)) {}
    const char *p() const { return b.data(); }
#ifdef ST_HAVE_CXX20_CHAR8_TYPES
    const char8_t *u() const { return reinterpret_cast<const char8_t *>(b.data()); }
#endif
};

static ST::case_sensitivity_t cs_of(const std::string &t)
{
    if (t == "cs") return ST::case_sensitive;
    if (t == "ci") return ST::case_insensitive;
    fprintf(stderr, "h_slice: bad case mode %s\n", t.c_str());
    exit(2);
}

static ST::utf_validation_t val_of(const std::string &t)
{
    if (t == "check") return ST::check_validity;
    if (t == "assume") return ST::assume_valid;
    fprintf(stderr, "h_slice: bad validation %s\n", t.c_str());
    exit(2);
}

static char byte1(const std::string &t)
{
    Block<char> b = units<char>(t);
    if (b.size() != 1) { fprintf(stderr, "h_slice: expected one byte\n"); exit(2); }
    return b.data()[0];
}

static std::string dispatch(const std::string &op, const Args &a)
{
    if (op == "fill") return info(ST::string::fill(u64(a[0]), byte1(a[1])));

    const ST::string s = mk(a[0]);
    if (op == "substr") {
        ST_ssize_t start = static_cast<ST_ssize_t>(i64(a[1]));
        size_t count = u64(a[2]);
        return info(s.substr(start, count));
    }
    if (op == "left") return info(s.left(u64(a[1])));
    if (op == "right") return info(s.right(u64(a[1])));
    if (op == "trim_left" || op == "trim_right" || op == "trim") {
        if (a[1] == "=") {
            return info(op == "trim_left" ? s.trim_left() : op == "trim_right" ? s.trim_right() : s.trim());
        }
        CStr set(a[1]);
        return info(op == "trim_left" ? s.trim_left(set.p()) : op == "trim_right" ? s.trim_right(set.p()) : s.trim(set.p()));
    }
    if (op.size() == 4 && op[2] == '_' && (op[0] == 'b' || op[0] == 'a') && (op[1] == 'f' || op[1] == 'l')) {
        const ST::case_sensitivity_t cs = cs_of(a[2]);
        const int which = (op[0] == 'b' ? 0 : 1) + (op[1] == 'f' ? 0 : 2);   // bf af bl al
        switch (op[3]) {
        case 'c': {
            char ch = byte1(a[1]);
            return info(which == 0 ? s.before_first(ch, cs) : which == 1 ? s.after_first(ch, cs)
                        : which == 2 ? s.before_last(ch, cs) : s.after_last(ch, cs));
        }
        case 'z': {
            CStr z(a[1]);
            return info(which == 0 ? s.before_first(z.p(), cs) : which == 1 ? s.after_first(z.p(), cs)
                        : which == 2 ? s.before_last(z.p(), cs) : s.after_last(z.p(), cs));
        }
#ifdef ST_HAVE_CXX20_CHAR8_TYPES
        case 'u': {
            CStr z(a[1]);
            return info(which == 0 ? s.before_first(z.u(), cs) : which == 1 ? s.after_first(z.u(), cs)
                        : which == 2 ? s.before_last(z.u(), cs) : s.after_last(z.u(), cs));
        }
#endif
        case 's': {
            const ST::string sep = mk(a[1]);
            return info(which == 0 ? s.before_first(sep, cs) : which == 1 ? s.after_first(sep, cs)
                        : which == 2 ? s.before_last(sep, cs) : s.after_last(sep, cs));
        }
        }
    }
    if (op == "split_c") return vinfo(s.split(byte1(a[1]), u64(a[2]), cs_of(a[3])));
    if (op == "split_z") { CStr z(a[1]); return vinfo(s.split(z.p(), u64(a[2]), cs_of(a[3]))); }
#ifdef ST_HAVE_CXX20_CHAR8_TYPES
    if (op == "split_u") { CStr z(a[1]); return vinfo(s.split(z.u(), u64(a[2]), cs_of(a[3]))); }
#endif
    if (op == "split_s") { const ST::string sep = mk(a[1]); return vinfo(s.split(sep, u64(a[2]), cs_of(a[3]))); }
    if (op == "tokenize") {
        if (a[1] == "=") return vinfo(s.tokenize());
        CStr d(a[1]);
        return vinfo(s.tokenize(d.p()));
    }
    if (op == "replace_ss") {
        const ST::string from = mk(a[1]), to = mk(a[2]);
        return info(s.replace(from, to, cs_of(a[3])));
    }
    if (op.compare(0, 8, "replace_") == 0 && op.size() == 10) {
        const ST::case_sensitivity_t cs = cs_of(a[3]);
        const ST::utf_validation_t v = val_of(a[4]);
        const std::string form = op.substr(8);
        if (form == "zz") { CStr f(a[1]), t(a[2]); return info(s.replace(f.p(), t.p(), cs, v)); }
        if (form == "sz") { const ST::string f = mk(a[1]); CStr t(a[2]); return info(s.replace(f, t.p(), cs, v)); }
        if (form == "zs") { CStr f(a[1]); const ST::string t = mk(a[2]); return info(s.replace(f.p(), t, cs, v)); }
#ifdef ST_HAVE_CXX20_CHAR8_TYPES
        if (form == "uu") { CStr f(a[1]), t(a[2]); return info(s.replace(f.u(), t.u(), cs, v)); }
        if (form == "su") { const ST::string f = mk(a[1]); CStr t(a[2]); return info(s.replace(f, t.u(), cs, v)); }
        if (form == "us") { CStr f(a[1]); const ST::string t = mk(a[2]); ST::string sm = s; return info(sm.replace(f.u(), t, cs, v)); }
#endif
    }
    fprintf(stderr, "h_slice: unknown op %s\n", op.c_str());
    exit(2);
}

int main(int argc, char **argv) { vh::g_decoy = true; return run_main(argc, argv, dispatch); }
