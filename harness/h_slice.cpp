// harness/h_slice.cpp — C08 / C09: slicing, before/after, split, tokenize, replace, fill through
// the public API only.  Case language: see ocaml/drv_slice.ml.
// Subjects and ST::string arguments are built with ST::string::from_validated from exact-size
// blocks (any bytes, embedded NUL, bytes >= 0x80); C-string arguments are exact-size
// NUL-terminated copies (one terminator, nothing behind it).
#include "common.h"
using namespace vh;

static ST::string mk(const std::string &tok)
{
    Block<char> b = units<char>(tok);
    return ST::string::from_validated(b.data(), b.size());
}

static std::string info(const ST::string &r)
{
    std::ostringstream o;
    o << hex(r) << " size=" << r.size() << " term=" << (r.c_str()[r.size()] == 0 ? 1 : 0);
    return o.str();
}

static std::string vinfo(const std::vector<ST::string> &v)
{
    std::ostringstream o;
    o << "n=" << v.size();
    for (const ST::string &p : v) {
        if (p.c_str()[p.size()] != 0) o << " !unterminated";
        o << " " << hex(p);
    }
    return o.str();
}

// a C string argument: "-" = nullptr, otherwise bytes + exactly one terminator
struct CStr {
    Block<char> b;
    explicit CStr(const std::string &tok) : b(units<char>(tok, 1)) {}
    const char *p() const { return b.data(); }
#ifdef ST_HAVE_CXX20_CHAR8_TYPES
    const char8_t *u() const { return reinterpret_cast<const char8_t *>(b.data()); }
#endif
};

static ST::case_sensitivity_t cs_of(const std::string &t)
{
    if (t == "cs") return ST::case_sensitive;
    if (t == "ci") return ST::case_insensitive;
    fprintf(stderr, "h_slice: bad case mode %s\n", t.c_str());
    exit(2);
}

static ST::utf_validation_t val_of(const std::string &t)
{
    if (t == "check") return ST::check_validity;
    if (t == "assume") return ST::assume_valid;
    fprintf(stderr, "h_slice: bad validation %s\n", t.c_str());
    exit(2);
}

static char byte1(const std::string &t)
{
    Block<char> b = units<char>(t);
    if (b.size() != 1) { fprintf(stderr, "h_slice: expected one byte\n"); exit(2); }
    return b.data()[0];
}

// many consecutive calls on one thread: a byte is a delimiter / member of the character set in the FIRST call only; all
// later calls use other sets on a subject that contains that byte.  Each result is compared with a reference computed
// here (the single-call behaviour is the subject of the ordinary cases); what is looked for is a result that depends on
// how many calls went before (generation counters that wrap, tables that are not cleared, caches that evict).
static std::string do_soak(size_t calls)
{
    auto ref_tokens = [](const std::string &t, const std::string &delims) {
        std::vector<std::string> out;
        std::string cur;
        for (char c : t) {
            if (delims.find(c) != std::string::npos) { if (!cur.empty()) out.push_back(cur); cur.clear(); }
            else cur.push_back(c);
        }
        if (!cur.empty()) out.push_back(cur);
        return out;
    };
    auto ref_trim = [](const std::string &t, const std::string &set) {
        size_t b = 0, e = t.size();
        while (b < e && set.find(t[b]) != std::string::npos) ++b;
        while (e > b && set.find(t[e - 1]) != std::string::npos) --e;
        return t.substr(b, e - b);
    };
    const std::string subj = "\"xa y,b;a\t,end'q\"";
    const ST::string S = ST::string::from_validated(subj.data(), subj.size());
    static const char *sets[] = { " \t", ",", ";", ", ;", "\t", "xy" };
    for (size_t k = 0; k < calls; ++k) {
        const std::string d = (k == 0) ? std::string("a\"'") : std::string(sets[k % 6]);
        std::vector<ST::string> got = S.tokenize(d.c_str());
        std::vector<std::string> want = ref_tokens(subj, d);
        bool ok = got.size() == want.size();
        for (size_t i = 0; ok && i < got.size(); ++i) ok = (got[i].size() == want[i].size() && memcmp(got[i].c_str(), want[i].data(), want[i].size()) == 0);
        ST::string tr = S.trim(d.c_str());
        std::string wtr = ref_trim(subj, d);
        ok = ok && tr.size() == wtr.size() && memcmp(tr.c_str(), wtr.data(), wtr.size()) == 0;
        if (!ok) { std::ostringstream o; o << "differs-at-call-" << k; return o.str(); }
    }
    return "clean";
}

static std::string dispatch(const std::string &op, const Args &a)
{
    if (op == "fill") return info(ST::string::fill(u64(a[0]), byte1(a[1])));
    if (op == "soak") return do_soak(size_t(u64(a[0])));

    const ST::string s = mk(a[0]);
    if (op == "substr") {
        ST_ssize_t start = static_cast<ST_ssize_t>(i64(a[1]));
        size_t count = u64(a[2]);
        return info(s.substr(start, count));
    }
    if (op == "left") return info(s.left(u64(a[1])));
    if (op == "right") return info(s.right(u64(a[1])));
    if (op == "trim_left" || op == "trim_right" || op == "trim") {
        if (a[1] == "=") {
            return info(op == "trim_left" ? s.trim_left() : op == "trim_right" ? s.trim_right() : s.trim());
        }
        CStr set(a[1]);
        return info(op == "trim_left" ? s.trim_left(set.p()) : op == "trim_right" ? s.trim_right(set.p()) : s.trim(set.p()));
    }
    if (op.size() == 4 && op[2] == '_' && (op[0] == 'b' || op[0] == 'a') && (op[1] == 'f' || op[1] == 'l')) {
        const ST::case_sensitivity_t cs = cs_of(a[2]);
        const int which = (op[0] == 'b' ? 0 : 1) + (op[1] == 'f' ? 0 : 2);   // bf af bl al
        switch (op[3]) {
        case 'c': {
            char ch = byte1(a[1]);
            return info(which == 0 ? s.before_first(ch, cs) : which == 1 ? s.after_first(ch, cs)
                        : which == 2 ? s.before_last(ch, cs) : s.after_last(ch, cs));
        }
        case 'z': {
            CStr z(a[1]);
            return info(which == 0 ? s.before_first(z.p(), cs) : which == 1 ? s.after_first(z.p(), cs)
                        : which == 2 ? s.before_last(z.p(), cs) : s.after_last(z.p(), cs));
        }
#ifdef ST_HAVE_CXX20_CHAR8_TYPES
        case 'u': {
            CStr z(a[1]);
            return info(which == 0 ? s.before_first(z.u(), cs) : which == 1 ? s.after_first(z.u(), cs)
                        : which == 2 ? s.before_last(z.u(), cs) : s.after_last(z.u(), cs));
        }
#endif
        case 's': {
            const ST::string sep = mk(a[1]);
            return info(which == 0 ? s.before_first(sep, cs) : which == 1 ? s.after_first(sep, cs)
                        : which == 2 ? s.before_last(sep, cs) : s.after_last(sep, cs));
        }
        }
    }
    if (op == "split_c") return vinfo(s.split(byte1(a[1]), u64(a[2]), cs_of(a[3])));
    if (op == "split_z") { CStr z(a[1]); return vinfo(s.split(z.p(), u64(a[2]), cs_of(a[3]))); }
#ifdef ST_HAVE_CXX20_CHAR8_TYPES
    if (op == "split_u") { CStr z(a[1]); return vinfo(s.split(z.u(), u64(a[2]), cs_of(a[3]))); }
#endif
    if (op == "split_s") { const ST::string sep = mk(a[1]); return vinfo(s.split(sep, u64(a[2]), cs_of(a[3]))); }
    if (op == "tokenize") {
        if (a[1] == "=") return vinfo(s.tokenize());
        CStr d(a[1]);
        return vinfo(s.tokenize(d.p()));
    }
    if (op == "replace_ss") {
        const ST::string from = mk(a[1]), to = mk(a[2]);
        return info(s.replace(from, to, cs_of(a[3])));
    }
    if (op.compare(0, 8, "replace_") == 0 && op.size() == 10) {
        const ST::case_sensitivity_t cs = cs_of(a[3]);
        const ST::utf_validation_t v = val_of(a[4]);
        const std::string form = op.substr(8);
        if (form == "zz") { CStr f(a[1]), t(a[2]); return info(s.replace(f.p(), t.p(), cs, v)); }
        if (form == "sz") { const ST::string f = mk(a[1]); CStr t(a[2]); return info(s.replace(f, t.p(), cs, v)); }
        if (form == "zs") { CStr f(a[1]); const ST::string t = mk(a[2]); return info(s.replace(f.p(), t, cs, v)); }
#ifdef ST_HAVE_CXX20_CHAR8_TYPES
        if (form == "uu") { CStr f(a[1]), t(a[2]); return info(s.replace(f.u(), t.u(), cs, v)); }
        if (form == "su") { const ST::string f = mk(a[1]); CStr t(a[2]); return info(s.replace(f, t.u(), cs, v)); }
        if (form == "us") { CStr f(a[1]); const ST::string t = mk(a[2]); ST::string sm = s; return info(sm.replace(f.u(), t, cs, v)); }
#endif
    }
    fprintf(stderr, "h_slice: unknown op %s\n", op.c_str());
    exit(2);
}

static std::string slice_probe()
{
    ST::string a = ST_LITERAL("  key=value; list=a,b,,c ; END  ");
    std::ostringstream o;
    o << hex(a.trim()) << "|" << hex(a.substr(2, 9)) << "|" << hex(a.before_first('=')) << "|" << hex(a.after_last("; ")) << "|" << hex(a.replace("a", "AA", ST::case_insensitive));
    for (const ST::string &p : a.split(",")) o << "|" << hex(p);
    for (const ST::string &p : a.tokenize(" ;=")) o << "|" << hex(p);
    return o.str();
}

VH_STARTUP_PROBE(slice_probe)

int main(int argc, char **argv) { vh::g_decoy = true; vh::g_probe = slice_probe; return run_main(argc, argv, dispatch); }
