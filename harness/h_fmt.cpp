// harness/h_fmt.cpp — C10 / C11 / C17: ST::format, ST::format(validation,...), ST::format_latin_1,
// ST::printf(FILE*), ST::writef(basic_ostream<char|wchar_t|char16_t|char32_t>), operator<< / >>.
// PUBLIC API only.  The format string (and every const char* argument) lives in an exact-size
// malloc block with ONLY its terminator after it, so a read past the NUL hits an ASan redzone.
//
//   format <sink> <mode> <fmt hex|-> <typed args...>        (see ocaml/drv_fmt.ml for the language)
//   strtol <hex>                                             glibc's strtol(.,&end,10): value, end offset
//   insert <c|w|u16|u32> <bytes hex>      extract <c|w|u16|u32> <units hex>
//
// One argument: the call is made with the argument's REAL C++ type (18 types).  Two to four
// arguments: the call is made with a tagged value `AV` whose format_type overload (the library's
// documented extension point, found by ADL) forwards to the library's own format_type for the
// real type; this keeps the number of apply_format instantiations at 22 instead of 18^4.
// Compile with -DH_FMT_STRING_ONLY to leave out the stream sinks (C10/C11 need only ST::format).
#include "common.h"
using namespace vh;

enum Kind { K_I8, K_U8, K_I16, K_U16, K_I32, K_U32, K_L, K_UL, K_LL, K_ULL, K_C, K_WC, K_C32, K_B,
            K_S, K_SN, K_STS, K_SS, K_F64, K_NEST };

struct AV {
    Kind k = K_I32;
    long long i = 0;
    unsigned long long u = 0;
    double d = 0;
    const char *cs = nullptr;          // into an exact-size block owned by the case
    const ST::string *sts = nullptr;
    const std::string *ss = nullptr;
};

// the library's extension point: forwards to the overload the real type selects
inline void format_type(const ST::format_spec &f, ST::format_writer &o, const AV &a)
{
    switch (a.k) {
    case K_I8: ST::format_type(f, o, static_cast<signed char>(a.i)); break;
    case K_U8: ST::format_type(f, o, static_cast<unsigned char>(a.u)); break;
    case K_I16: ST::format_type(f, o, static_cast<short>(a.i)); break;
    case K_U16: ST::format_type(f, o, static_cast<unsigned short>(a.u)); break;
    case K_I32: ST::format_type(f, o, static_cast<int>(a.i)); break;
    case K_U32: ST::format_type(f, o, static_cast<unsigned int>(a.u)); break;
    case K_L: ST::format_type(f, o, static_cast<long>(a.i)); break;
    case K_UL: ST::format_type(f, o, static_cast<unsigned long>(a.u)); break;
    case K_LL: ST::format_type(f, o, static_cast<long long>(a.i)); break;
    case K_ULL: ST::format_type(f, o, static_cast<unsigned long long>(a.u)); break;
    case K_C: ST::format_type(f, o, static_cast<char>(a.i)); break;
    case K_WC: ST::format_type(f, o, static_cast<wchar_t>(a.i)); break;
    case K_C32: ST::format_type(f, o, static_cast<char32_t>(a.u)); break;
    case K_B: ST::format_type(f, o, a.u != 0); break;
    case K_S: case K_SN: ST::format_type(f, o, a.cs); break;
    case K_STS: ST::format_type(f, o, *a.sts); break;
    case K_SS: ST::format_type(f, o, *a.ss); break;
    case K_F64: ST::format_type(f, o, a.d); break;
    // a user-defined formatter that itself calls ST::format to build its text (a common pattern), then renders that
    // text with the field's width / alignment / precision
    case K_NEST: { ST::string text = ST::format("{}", *a.sts); ST::format_type(f, o, text); break; }
    }
}
// a user-defined type of its own for the single-argument route
struct Nested { const ST::string *text; };
inline void format_type(const ST::format_spec &f, ST::format_writer &o, const Nested &n)
{
    ST::string t = ST::format("{}", *n.text);
    ST::format_type(f, o, t);
}

enum Sink { S_STRING, S_LATIN1, S_FILE, S_OSTREAM, S_WOSTREAM, S_U16, S_U32 };
enum Mode { M_DEFAULT, M_CHECK, M_SUBST, M_ASSUME };

static std::string str_result(const ST::string &r)
{
    std::ostringstream o;
    o << hex(r) << " size=" << r.size() << " term=" << (r.c_str()[r.size()] == 0 ? 1 : 0);
    return o.str();
}

template <class T>
static std::string stream_result(const T *p, size_t n, const char *end)
{
    std::ostringstream o;
    o << hex(p, n) << " n=" << n << " end=" << end;
    return o.str();
}

// runs `call` and names how it ended; ST_ASSERT aborts and sanitizer reports kill the process
template <class F>
static const char *ending(F &&call)
{
    try { call(); return "ok"; }
    catch (const ST::unicode_error &) { return "unicode_error"; }
    catch (const ST::bad_format &) { return "bad_format"; }
    catch (const std::out_of_range &) { return "out_of_range"; }
    catch (const std::invalid_argument &) { return "invalid_argument"; }
    catch (const std::bad_alloc &) { return "bad_alloc"; }
    catch (const std::bad_cast &) { return "bad_cast"; }
}

template <class CharT, class... A>
static std::string to_ostream(const char *fmt, const A &...a)
{
    std::basic_ostringstream<CharT> os;
    // formatting state the caller may have left on the stream: writef writes its bytes unformatted and must ignore it
    // (char16_t / char32_t streams have no ctype facet: fill() would throw std::bad_cast there)
    if constexpr (std::is_same<CharT, char>::value || std::is_same<CharT, wchar_t>::value) {
        if (g_align & 1) { os.width(12); os.fill(CharT('.')); os.setf(std::ios_base::left, std::ios_base::adjustfield); }
    }
    const char *e = ending([&] { ST::writef(os, fmt, a...); });
    std::basic_string<CharT> s = os.str();
    return stream_result(s.data(), s.size(), e);
}

template <class... A>
static std::string run(Sink sink, Mode mode, const char *fmt, const A &...a)
{
    switch (sink) {
    case S_STRING:
        switch (mode) {
        case M_DEFAULT: return str_result(ST::format(fmt, a...));
        case M_CHECK: return str_result(ST::format(ST::check_validity, fmt, a...));
        case M_SUBST: return str_result(ST::format(ST::substitute_invalid, fmt, a...));
        case M_ASSUME: return str_result(ST::format(ST::assume_valid, fmt, a...));
        }
        break;
#ifndef H_FMT_STRING_ONLY
    case S_LATIN1:
        return str_result(ST::format_latin_1(fmt, a...));
    case S_FILE: {
        char *buf = nullptr;
        size_t len = 0;
        FILE *f = open_memstream(&buf, &len);
        const char *e = ending([&] { ST::printf(f, fmt, a...); });
        fclose(f);
        std::string r = stream_result(buf, len, e);
        free(buf);
        return r;
    }
    case S_OSTREAM: return to_ostream<char>(fmt, a...);
    case S_WOSTREAM: return to_ostream<wchar_t>(fmt, a...);
    case S_U16: return to_ostream<char16_t>(fmt, a...);
    case S_U32: return to_ostream<char32_t>(fmt, a...);
#endif
    default: break;
    }
    fprintf(stderr, "h_fmt: sink not compiled in\n");
    exit(2);
}

struct Parsed {
    std::vector<AV> av;
    std::vector<Block<char>> blocks;          // const char* arguments, exact size + NUL
    std::vector<ST::string> sts;
    std::vector<std::string> sss;
};

static void parse_args(const Args &a, size_t from, Parsed &p)
{
    size_t n = a.size() - from;
    p.av.resize(n);
    p.blocks.reserve(n);
    p.sts.reserve(n);
    p.sss.reserve(n);
    for (size_t i = 0; i < n; ++i) {
        const std::string &tok = a[from + i];
        AV &v = p.av[i];
        if (tok == "sn") { v.k = K_SN; v.cs = nullptr; continue; }
        size_t c = tok.find(':');
        std::string kind = tok.substr(0, c), val = tok.substr(c + 1);
        if (kind == "i8") { v.k = K_I8; v.i = i64(val); }
        else if (kind == "u8") { v.k = K_U8; v.u = u64(val); }
        else if (kind == "i16") { v.k = K_I16; v.i = i64(val); }
        else if (kind == "u16") { v.k = K_U16; v.u = u64(val); }
        else if (kind == "i32") { v.k = K_I32; v.i = i64(val); }
        else if (kind == "u32") { v.k = K_U32; v.u = u64(val); }
        else if (kind == "l") { v.k = K_L; v.i = i64(val); }
        else if (kind == "ul") { v.k = K_UL; v.u = u64(val); }
        else if (kind == "ll") { v.k = K_LL; v.i = i64(val); }
        else if (kind == "ull") { v.k = K_ULL; v.u = u64(val); }
        else if (kind == "c") { v.k = K_C; v.i = i64(val); }
        else if (kind == "wc") { v.k = K_WC; v.i = i64(val); }
        else if (kind == "c32") { v.k = K_C32; v.u = u64(val); }
        else if (kind == "b") { v.k = K_B; v.u = u64(val); }
        else if (kind == "s") {
            v.k = K_S;
            p.blocks.push_back(units<char>(val, 1));
            v.cs = p.blocks.back().p;
        } else if (kind == "S") {
            v.k = K_STS;
            Block<char> b = units<char>(val);
            p.sts.push_back(ST::string::from_validated(b.data(), b.size()));
            v.sts = &p.sts.back();
        } else if (kind == "n") {
            v.k = K_NEST;
            Block<char> b = units<char>(val);
            p.sts.push_back(ST::string::from_validated(b.data(), b.size()));
            v.sts = &p.sts.back();
        } else if (kind == "ss") {
            v.k = K_SS;
            Block<char> b = units<char>(val);
            p.sss.push_back(std::string(b.data(), b.size()));
            v.ss = &p.sss.back();
        } else if (kind == "f64") {
            v.k = K_F64;
            uint64_t bits = strtoull(val.c_str(), nullptr, 16);
            memcpy(&v.d, &bits, 8);
        } else { fprintf(stderr, "h_fmt: bad argument %s\n", tok.c_str()); exit(2); }
    }
}

// one argument, real type
static std::string run1(Sink s, Mode m, const char *fmt, const AV &a)
{
    switch (a.k) {
    case K_I8: return run(s, m, fmt, static_cast<signed char>(a.i));
    case K_U8: return run(s, m, fmt, static_cast<unsigned char>(a.u));
    case K_I16: return run(s, m, fmt, static_cast<short>(a.i));
    case K_U16: return run(s, m, fmt, static_cast<unsigned short>(a.u));
    case K_I32: return run(s, m, fmt, static_cast<int>(a.i));
    case K_U32: return run(s, m, fmt, static_cast<unsigned int>(a.u));
    case K_L: return run(s, m, fmt, static_cast<long>(a.i));
    case K_UL: return run(s, m, fmt, static_cast<unsigned long>(a.u));
    case K_LL: return run(s, m, fmt, static_cast<long long>(a.i));
    case K_ULL: return run(s, m, fmt, static_cast<unsigned long long>(a.u));
    case K_C: return run(s, m, fmt, static_cast<char>(a.i));
    case K_WC: return run(s, m, fmt, static_cast<wchar_t>(a.i));
    case K_C32: return run(s, m, fmt, static_cast<char32_t>(a.u));
    case K_B: return run(s, m, fmt, a.u != 0);
    case K_S: case K_SN: return run(s, m, fmt, a.cs);
    case K_STS: return run(s, m, fmt, *a.sts);
    case K_SS: return run(s, m, fmt, *a.ss);
    case K_F64: return run(s, m, fmt, a.d);
    case K_NEST: { Nested n{a.sts}; return run(s, m, fmt, n); }
    }
    return "";
}

static std::string do_format(const Args &a)
{
    static const char *sinks[] = { "string", "latin1", "file", "ostream", "wostream", "u16ostream", "u32ostream" };
    static const char *modes[] = { "default", "check", "substitute", "assume" };
    int s = -1, m = -1;
    for (int i = 0; i < 7; ++i) if (a[0] == sinks[i]) s = i;
    for (int i = 0; i < 4; ++i) if (a[1] == modes[i]) m = i;
    if (s < 0 || m < 0) { fprintf(stderr, "h_fmt: bad sink/mode\n"); exit(2); }
    Block<char> fb = units<char>(a[2], 1);       // exact size: only the terminator follows the text
    const char *fmt = fb.data();
    Parsed p;
    parse_args(a, 3, p);
    Sink sk = static_cast<Sink>(s);
    Mode md = static_cast<Mode>(m);
    switch (p.av.size()) {
    case 0: return run(sk, md, fmt);
    case 1: return run1(sk, md, fmt, p.av[0]);
    case 2: return run(sk, md, fmt, p.av[0], p.av[1]);
    case 3: return run(sk, md, fmt, p.av[0], p.av[1], p.av[2]);
    case 4: return run(sk, md, fmt, p.av[0], p.av[1], p.av[2], p.av[3]);
    default: fprintf(stderr, "h_fmt: at most 4 arguments\n"); exit(2);
    }
}

#ifndef H_FMT_STRING_ONLY
template <class CharT>
static std::string do_insert(const std::string &tok)
{
    Block<char> b = units<char>(tok);
    ST::string s = ST::string::from_validated(b.data(), b.size());
    std::basic_ostringstream<CharT> os;
    os << s;
    std::basic_string<CharT> r = os.str();
    return hex(r.data(), r.size());
}

// the token a std::basic_string extraction takes, and what the ST::string extraction stored
template <class CharT>
static std::string do_extract(const std::string &tok)
{
    Block<CharT> b = units<CharT>(tok);
    std::basic_string<CharT> text(b.data(), b.size());
    std::ostringstream o;
    std::basic_string<CharT> ref;
    const char *e0 = ending([&] {
        std::basic_istringstream<CharT> is(text);
        is >> ref;
    });
    o << "tok=" << hex(ref.data(), ref.size()) << " tokend=" << e0;
    ST::string st = ST::string::from_validated("unset", 5);
    bool failbit = false;
    const char *e1 = ending([&] {
        std::basic_istringstream<CharT> is(text);
        is >> st;
        failbit = is.fail();
    });
    o << " st=" << hex(st) << " fail=" << (failbit ? 1 : 0) << " end=" << e1;
    // a SEQUENCE of extractions under stream state the caller has set (a field width, skipws off and on again): the
    // ST::string extractor must take the same tokens and leave the stream in the same state as the std::basic_string
    // extractor (reported only when it does not, so that the line is unchanged)
    for (int variant = 0; variant < 3; ++variant) {
        std::basic_istringstream<CharT> ia(text), ib(text);
        std::basic_string<CharT> r1, r2, r3;
        ST::string s1, s2, s3;
        bool threw = false;
        auto prep = [&](std::basic_istream<CharT> &is) {
            if (variant == 0) is.width(3);
            if (variant == 1) is.width(1);
            if (variant == 2) is.unsetf(std::ios_base::skipws);
        };
        prep(ia); prep(ib);
        try { ia >> r1 >> r2 >> r3; } catch (...) { threw = true; }
        try { ib >> s1 >> s2 >> s3; } catch (...) { threw = true; }
        if (threw) continue;
        auto same = [](const std::basic_string<CharT> &r, const ST::string &x) {
            try { ST::string y; y.set(r.c_str(), r.size()); return y == x; } catch (...) { return true; }
        };
        // a different TOKEN is the property's business; a different stream state afterwards only departs from the model
        if (!same(r1, s1) || !same(r2, s2) || !same(r3, s3))
            o << " seqtok=" << variant;
        else if (ia.rdstate() != ib.rdstate() || ia.width() != ib.width())
            o << " seqstate=" << variant;
    }
    return o.str();
}
#endif

// a user-defined format_writer driven by hand through the public next_format() / parse_format() interface, which keeps
// going after ST::bad_format was thrown and caught (draining the rest of the format string): whatever state the failed
// parse left behind, the scan may not pass the terminating NUL, hang or crash.  Only that is observed.
struct CollectWriter : public ST::format_writer {
    size_t bytes = 0;
    explicit CollectWriter(const char *f) : ST::format_writer(f) {}
    CollectWriter &append(const char *, size_t size) override { bytes += size; return *this; }
    CollectWriter &append_char(char, size_t count = 1) override { bytes += count; return *this; }
};
static std::string do_writer_retry(const Args &a)
{
    Block<char> fb = units<char>(a[0], 1);
    CollectWriter w(fb.data());
    for (int round = 0; round < 64; ++round) {
        try {
            while (w.next_format()) (void)w.parse_format();
            break;
        } catch (const ST::bad_format &) {
        } catch (const std::out_of_range &) {
        }
    }
    return "retry";
}

// a stream buffer that accepts a few characters and then throws, on a stream that rethrows (exceptions(badbit)): whatever
// the library does with USER code that throws underneath it, the exception must come back to the caller as an exception
// (or be absorbed into the stream state) — not end the process.  Only that is observed.
struct ThrowingBuf : public std::streambuf {
    int left;
    explicit ThrowingBuf(int n) : left(n) {}
    int_type overflow(int_type c) override { if (left-- <= 0) throw std::runtime_error("sink full"); return c; }
    std::streamsize xsputn(const char *, std::streamsize n) override
    {
        if (n > left) { left = 0; throw std::runtime_error("sink full"); }
        left -= int(n);
        return n;
    }
};
static std::string do_throwsink(const Args &a)
{
    Block<char> fb = units<char>(a[0], 1);
    Parsed p;
    parse_args(a, 1, p);
    for (int mask = 0; mask < 2; ++mask) {
        ThrowingBuf buf(g_align);
        std::ostream os(&buf);
        if (mask) os.exceptions(std::ios_base::badbit | std::ios_base::failbit);
        try {
            switch (p.av.size()) {
            case 0: ST::writef(os, fb.data()); break;
            case 1: ST::writef(os, fb.data(), p.av[0]); break;
            case 2: ST::writef(os, fb.data(), p.av[0], p.av[1]); break;
            default: ST::writef(os, fb.data(), p.av[0], p.av[1], p.av[2]); break;
            }
        } catch (const std::exception &) {
        }
    }
    return "safe";
}
// a formatter_ref obtained from the public make_formatter_ref and used after the argument it was made from has gone
// (a deferred logger): the closure must own what it needs
static std::string do_fmtref(const Args &a)
{
    ST::formatter_ref_t f;
    {
        Block<char> b = units<char>(a[0]);
        ST::string tmp = ST::string::from_validated(b.data(), b.size());
        f = ST::make_formatter_ref(tmp);
        tmp = ST::string();
    }
    CollectWriter w("{}");
    if (w.next_format()) { ST::format_spec spec = w.parse_format(); f(spec, w); }
    return "safe";
}

static std::string dispatch(const std::string &op, const Args &a)
{
    if (op == "format") return do_format(a);
    if (op == "throwsink") return do_throwsink(a);
    if (op == "fmtref") return do_fmtref(a);
    if (op == "writer_retry") return do_writer_retry(a);
    if (op == "strtol") {
        Block<char> b = units<char>(a[0], 1);
        char *end = nullptr;
        long v = strtol(b.data(), &end, 10);
        std::ostringstream o;
        o << "v=" << v << " end=" << (end - b.data());
        return o.str();
    }
#ifndef H_FMT_STRING_ONLY
    if (op == "insert") {
        if (a[0] == "c") return do_insert<char>(a[1]);
        if (a[0] == "w") return do_insert<wchar_t>(a[1]);
        if (a[0] == "u16") return do_insert<char16_t>(a[1]);
        if (a[0] == "u32") return do_insert<char32_t>(a[1]);
    }
    if (op == "extract") {
        if (a[0] == "c") return do_extract<char>(a[1]);
        if (a[0] == "w") return do_extract<wchar_t>(a[1]);
        if (a[0] == "u16") return do_extract<char16_t>(a[1]);
        if (a[0] == "u32") return do_extract<char32_t>(a[1]);
    }
#endif
    fprintf(stderr, "h_fmt: unknown op %s\n", op.c_str());
    exit(2);
}

static std::string fmt_probe()
{
    std::ostringstream o;
    o << hex(ST::format("{}|{>8}|{x}|{.3f}|{c}|{_*<6}", ST_LITERAL("text"), "right", 48879, 3.14159, 0x20ac, true));
    std::ostringstream os; ST::writef(os, "{}-{05}", "w", 42); o << "|" << os.str();
    ST::string_stream ss; ss << "s" << 12345 << ' ' << 1.5 << u"\u00e9"; o << "|" << hex(ss.to_string());
    return o.str();
}

VH_STARTUP_PROBE(fmt_probe)

int main(int argc, char **argv) { vh::g_probe = fmt_probe; return run_main(argc, argv, dispatch); }
