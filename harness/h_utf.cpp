// harness/h_utf.cpp — C01 / C02 / C03: every transcoder and the ST::string entry points built
// on them, through the PUBLIC API only.  Case language (see ocaml/drv_utf.ml):
//   <fn>.<route> <mode> <sub> <units> [=scalars]        ENUM <domain> <fn>.<route> <mode> <sub> <lo> <hi>
// Inputs live in exact-size malloc blocks (units<T>), so a read past the range given to the
// library hits an ASan redzone on the .ptr/.u8/.view/.ctor/.set routes.
#include "common.h"
using namespace vh;

typedef ST::utf_validation_t M;

#define VH_STR2(x) #x
#define VH_STR(x) VH_STR2(x)

struct Mode {
    bool dflt = false;   // call the overload that omits the mode
    M m = ST::check_validity;
};

static Mode parse_mode(const std::string &t)
{
    Mode r;
    std::string v = t;
    if (t.rfind("default:", 0) == 0) {
        r.dflt = true;
        v = t.substr(8);
        // the case must have been routed to the build configured with this default
        M compiled = ST_DEFAULT_VALIDATION;
        M want = v == "av" ? ST::assume_valid : v == "si" ? ST::substitute_invalid : ST::check_validity;
        if (compiled != want) {
            fprintf(stderr, "h_utf: case wants default %s but this build has %s\n", v.c_str(), VH_STR(ST_DEFAULT_VALIDATION));
            exit(2);
        }
    }
    if (v == "av") r.m = ST::assume_valid;
    else if (v == "si") r.m = ST::substitute_invalid;
    else if (v == "cv" || v == "_") r.m = ST::check_validity;
    else { fprintf(stderr, "h_utf: bad mode %s\n", t.c_str()); exit(2); }
    return r;
}

template <class T>
static std::string strinfo(const std::basic_string<T> &s)
{
    std::ostringstream o;
    o << hex(s.data(), s.size()) << " size=" << s.size() << " term=" << (s.c_str()[s.size()] == 0 ? 1 : 0);
    return o.str();
}
static std::string strinfo(const ST::string &s)
{
    std::ostringstream o;
    o << hex(s) << " size=" << s.size() << " term=" << (s.c_str()[s.size()] == 0 ? 1 : 0);
    return o.str();
}

[[noreturn]] static void bad_route(const std::string &fn, const std::string &route)
{
    fprintf(stderr, "h_utf: no route %s for %s\n", route.c_str(), fn.c_str());
    exit(2);
}

// ---------------------------------------------------------------- free conversion functions
// F(ptr, size[, mode]) and F(buffer[, mode])
#define CONV(NAME, SRC)                                                                          \
    if (fn == #NAME) {                                                                           \
        if (route == "ptr") {                                                                    \
            Block<SRC> in = units<SRC>(u);                                                       \
            return bufinfo(md.dflt ? ST::NAME(in.data(), in.size()) : ST::NAME(in.data(), in.size(), md.m)); \
        }                                                                                        \
        if (route == "buf") {                                                                    \
            Block<SRC> in = units<SRC>(u);                                                       \
            ST::buffer<SRC> b(in.data(), in.size());                                             \
            return bufinfo(md.dflt ? ST::NAME(b) : ST::NAME(b, md.m));                           \
        }                                                                                        \
    }
// UTF-8 sources also take char8_t
#define CONV_U8(NAME)                                                                            \
    if (fn == #NAME && route == "u8") {                                                          \
        Block<char8_t> in = units<char8_t>(u);                                                   \
        return bufinfo(md.dflt ? ST::NAME(in.data(), in.size()) : ST::NAME(in.data(), in.size(), md.m)); \
    }
// Latin-1 targets: (…, mode, substitute_out_of_range)
#define CONV_L1(NAME, SRC)                                                                       \
    if (fn == #NAME) {                                                                           \
        if (route == "ptr") {                                                                    \
            Block<SRC> in = units<SRC>(u);                                                       \
            return bufinfo(md.dflt ? ST::NAME(in.data(), in.size()) : ST::NAME(in.data(), in.size(), md.m, sub)); \
        }                                                                                        \
        if (route == "buf") {                                                                    \
            Block<SRC> in = units<SRC>(u);                                                       \
            ST::buffer<SRC> b(in.data(), in.size());                                             \
            return bufinfo(md.dflt ? ST::NAME(b) : ST::NAME(b, md.m, sub));                      \
        }                                                                                        \
        if (route == "ptrmode") { /* mode given, flag omitted (defaults to true) */              \
            Block<SRC> in = units<SRC>(u);                                                       \
            return bufinfo(ST::NAME(in.data(), in.size(), md.m));                                \
        }                                                                                        \
    }
// Latin-1 sources: no mode
#define CONV_FROM_L1(NAME)                                                                       \
    if (fn == #NAME) {                                                                           \
        if (route == "ptr") {                                                                    \
            Block<char> in = units<char>(u);                                                     \
            return bufinfo(ST::NAME(in.data(), in.size()));                                      \
        }                                                                                        \
        if (route == "buf") {                                                                    \
            Block<char> in = units<char>(u);                                                     \
            ST::char_buffer b(in.data(), in.size());                                             \
            return bufinfo(ST::NAME(b));                                                         \
        }                                                                                        \
    }

// ---------------------------------------------------------------- ST::string from_* families
template <class T> struct Fam;
template <> struct Fam<char> {
    static ST::string from(const char *p, size_t n, M m) { return ST::string::from_utf8(p, n, m); }
    static ST::string from(const char *p, size_t n) { return ST::string::from_utf8(p, n); }
    static ST::string fromb(const ST::char_buffer &b, M m) { return ST::string::from_utf8(b, m); }
    static ST::string fromb(const ST::char_buffer &b) { return ST::string::from_utf8(b); }
};
template <> struct Fam<char8_t> {
    static ST::string from(const char8_t *p, size_t n, M m) { return ST::string::from_utf8(p, n, m); }
    static ST::string from(const char8_t *p, size_t n) { return ST::string::from_utf8(p, n); }
};
template <> struct Fam<char16_t> {
    static ST::string from(const char16_t *p, size_t n, M m) { return ST::string::from_utf16(p, n, m); }
    static ST::string from(const char16_t *p, size_t n) { return ST::string::from_utf16(p, n); }
    static ST::string fromb(const ST::utf16_buffer &b, M m) { return ST::string::from_utf16(b, m); }
    static ST::string fromb(const ST::utf16_buffer &b) { return ST::string::from_utf16(b); }
};
template <> struct Fam<char32_t> {
    static ST::string from(const char32_t *p, size_t n, M m) { return ST::string::from_utf32(p, n, m); }
    static ST::string from(const char32_t *p, size_t n) { return ST::string::from_utf32(p, n); }
    static ST::string fromb(const ST::utf32_buffer &b, M m) { return ST::string::from_utf32(b, m); }
    static ST::string fromb(const ST::utf32_buffer &b) { return ST::string::from_utf32(b); }
};
template <> struct Fam<wchar_t> {
    static ST::string from(const wchar_t *p, size_t n, M m) { return ST::string::from_wchar(p, n, m); }
    static ST::string from(const wchar_t *p, size_t n) { return ST::string::from_wchar(p, n); }
    static ST::string fromb(const ST::wchar_buffer &b, M m) { return ST::string::from_wchar(b, m); }
    static ST::string fromb(const ST::wchar_buffer &b) { return ST::string::from_wchar(b); }
};

static const char *const PREVIOUS = "previous content, longer than the short-string limit";

// every way of building an ST::string from units of type T (T != char8_t)
template <class T>
static std::string str_from(const std::string &route, const Mode &md, const std::string &u)
{
    typedef std::basic_string<T> S;
    typedef std::basic_string_view<T> V;
    if (route == "ptr") {
        Block<T> in = units<T>(u);
        return strinfo(md.dflt ? Fam<T>::from(in.data(), in.size()) : Fam<T>::from(in.data(), in.size(), md.m));
    }
    if (route == "buf") {
        Block<T> in = units<T>(u);
        ST::buffer<T> b(in.data(), in.size());
        return strinfo(md.dflt ? Fam<T>::fromb(b) : Fam<T>::fromb(b, md.m));
    }
    if (route == "std") {
        Block<T> in = units<T>(u);
        S s(in.data(), in.size());
        return strinfo(md.dflt ? ST::string::from_std_string(s) : ST::string::from_std_string(s, md.m));
    }
    if (route == "view") {
        Block<T> in = units<T>(u);
        V v(in.data(), in.size());
        return strinfo(md.dflt ? ST::string::from_std_string(v) : ST::string::from_std_string(v, md.m));
    }
    if (route == "cstr") {          // ST_AUTO_SIZE: length taken from the terminator
        Block<T> in = units<T>(u, 1);
        return strinfo(md.dflt ? Fam<T>::from(in.data(), ST_AUTO_SIZE) : Fam<T>::from(in.data(), ST_AUTO_SIZE, md.m));
    }
    if (route == "ctorcstr") {      // constructor with the size left as ST_AUTO_SIZE
        Block<T> in = units<T>(u, 1);
        if (md.dflt) { ST::string s(in.data()); return strinfo(s); }
        ST::string s(in.data(), ST_AUTO_SIZE, md.m);
        return strinfo(s);
    }
    if (route == "setcstr") {       // set() with the size left as ST_AUTO_SIZE
        Block<T> in = units<T>(u, 1);
        ST::string s(PREVIOUS);
        if (md.dflt) s.set(in.data()); else s.set(in.data(), ST_AUTO_SIZE, md.m);
        return strinfo(s);
    }
    if (route == "ctor") {
        Block<T> in = units<T>(u);
        if (md.dflt) { ST::string s(in.data(), in.size()); return strinfo(s); }
        ST::string s(in.data(), in.size(), md.m);
        return strinfo(s);
    }
    if (route == "ctorbuf") {
        Block<T> in = units<T>(u);
        ST::buffer<T> b(in.data(), in.size());
        if (md.dflt) { ST::string s(b); return strinfo(s); }
        ST::string s(b, md.m);
        return strinfo(s);
    }
    if (route == "ctorstd") {
        Block<T> in = units<T>(u);
        S x(in.data(), in.size());
        if (md.dflt) { ST::string s(x); return strinfo(s); }
        ST::string s(x, md.m);
        return strinfo(s);
    }
    if (route == "ctorview") {
        Block<T> in = units<T>(u);
        V x(in.data(), in.size());
        if (md.dflt) { ST::string s(x); return strinfo(s); }
        ST::string s(x, md.m);
        return strinfo(s);
    }
    if (route == "set") {
        Block<T> in = units<T>(u);
        ST::string s(PREVIOUS);
        if (md.dflt) s.set(in.data(), in.size()); else s.set(in.data(), in.size(), md.m);
        return strinfo(s);
    }
    if (route == "setbuf") {
        Block<T> in = units<T>(u);
        ST::buffer<T> b(in.data(), in.size());
        ST::string s(PREVIOUS);
        if (md.dflt) s.set(b); else s.set(b, md.m);
        return strinfo(s);
    }
    if (route == "setstd") {
        Block<T> in = units<T>(u);
        S x(in.data(), in.size());
        ST::string s(PREVIOUS);
        if (md.dflt) s.set(x); else s.set(x, md.m);
        return strinfo(s);
    }
    if (route == "setview") {
        Block<T> in = units<T>(u);
        V x(in.data(), in.size());
        ST::string s(PREVIOUS);
        if (md.dflt) s.set(x); else s.set(x, md.m);
        return strinfo(s);
    }
    // operator= : always the configured default mode
    if (route == "assign") {
        Block<T> in = units<T>(u);
        ST::buffer<T> b(in.data(), in.size());
        ST::string s(PREVIOUS);
        s = b;
        return strinfo(s);
    }
    if (route == "assignstd") {
        Block<T> in = units<T>(u);
        S x(in.data(), in.size());
        ST::string s(PREVIOUS);
        s = x;
        return strinfo(s);
    }
    if (route == "assignview") {
        Block<T> in = units<T>(u);
        V x(in.data(), in.size());
        ST::string s(PREVIOUS);
        s = x;
        return strinfo(s);
    }
    if (route == "assigncstr") {
        Block<T> in = units<T>(u, 1);
        ST::string s(PREVIOUS);
        s = in.data();
        return strinfo(s);
    }
    // operator+ / operator+= with a C string operand: the configured default mode
    if (route == "plus") { Block<T> in = units<T>(u, 1); return strinfo(ST::string() + in.data()); }
    if (route == "rplus") { Block<T> in = units<T>(u, 1); return strinfo(in.data() + ST::string()); }
    if (route == "pluseq") { Block<T> in = units<T>(u, 1); ST::string s; s += in.data(); return strinfo(s); }
    if (route == "lit") {           // literal operator called as a function; hard-wired assume_valid
        Block<T> in = units<T>(u);
        return strinfo(ST::literals::operator"" _st(in.data(), in.size()));
    }
    bad_route("str_from", route);
}

// char8_t has its own (smaller) overload set
static std::string str_from_u8(const std::string &route, const Mode &md, const std::string &u)
{
    if (route == "u8") {
        Block<char8_t> in = units<char8_t>(u);
        return strinfo(md.dflt ? Fam<char8_t>::from(in.data(), in.size()) : Fam<char8_t>::from(in.data(), in.size(), md.m));
    }
    if (route == "u8std") {
        Block<char8_t> in = units<char8_t>(u);
        std::u8string s(in.data(), in.size());
        return strinfo(md.dflt ? ST::string::from_std_string(s) : ST::string::from_std_string(s, md.m));
    }
    if (route == "u8view") {
        Block<char8_t> in = units<char8_t>(u);
        std::u8string_view v(in.data(), in.size());
        return strinfo(md.dflt ? ST::string::from_std_string(v) : ST::string::from_std_string(v, md.m));
    }
    if (route == "u8ctor") {
        Block<char8_t> in = units<char8_t>(u);
        if (md.dflt) { ST::string s(in.data(), in.size()); return strinfo(s); }
        ST::string s(in.data(), in.size(), md.m);
        return strinfo(s);
    }
    if (route == "u8set") {
        Block<char8_t> in = units<char8_t>(u);
        ST::string s(PREVIOUS);
        if (md.dflt) s.set(in.data(), in.size()); else s.set(in.data(), in.size(), md.m);
        return strinfo(s);
    }
    if (route == "u8ctorview") {
        Block<char8_t> in = units<char8_t>(u);
        std::u8string_view v(in.data(), in.size());
        if (md.dflt) { ST::string s(v); return strinfo(s); }
        ST::string s(v, md.m);
        return strinfo(s);
    }
    if (route == "u8assignstd") {
        Block<char8_t> in = units<char8_t>(u);
        std::u8string x(in.data(), in.size());
        ST::string s(PREVIOUS);
        s = x;
        return strinfo(s);
    }
    // ---- the source text lies INSIDE the destination string's own storage (a proper sub-range of it): the
    //      destination must not be released or overwritten before the source has been read
    if (route == "aliasset" || route == "aliasview" || route == "aliasu8" || route == "aliasasg") {
        Block<char> in = units<char>(u);
        std::string own = "xyz" + std::string(in.data() ? in.data() : "", in.size()) + (route == "aliasasg" ? "" : "..");
        ST::string s = ST::string::from_validated(own.data(), own.size());
        if (route == "aliasset") { if (md.dflt) s.set(s.c_str() + 3, in.size()); else s.set(s.c_str() + 3, in.size(), md.m); }
        else if (route == "aliasview") { if (md.dflt) s.set(s.view(3, in.size())); else s.set(s.view(3, in.size()), md.m); }
        else if (route == "aliasu8") { if (md.dflt) s.set(s.u8_str() + 3, in.size()); else s.set(s.u8_str() + 3, in.size(), md.m); }
        else s = s.c_str() + 3;
        return strinfo(s);
    }
    if (route == "setmove") {       // set(char_buffer &&, mode)
        Block<char> in = units<char>(u);
        ST::char_buffer b(in.data(), in.size());
        ST::string s(PREVIOUS);
        if (md.dflt) s.set(std::move(b)); else s.set(std::move(b), md.m);
        return strinfo(s);
    }
    if (route == "ctormove") {
        Block<char> in = units<char>(u);
        ST::char_buffer b(in.data(), in.size());
        if (md.dflt) { ST::string s(std::move(b)); return strinfo(s); }
        ST::string s(std::move(b), md.m);
        return strinfo(s);
    }
    return str_from<char>(route, md, u);
}

static std::string str_from_latin_1(const std::string &route, const std::string &u)
{
    if (route == "ptr") {
        Block<char> in = units<char>(u);
        return strinfo(ST::string::from_latin_1(in.data(), in.size()));
    }
    if (route == "buf") {
        Block<char> in = units<char>(u);
        ST::char_buffer b(in.data(), in.size());
        return strinfo(ST::string::from_latin_1(b));
    }
    if (route == "cstr") {
        Block<char> in = units<char>(u, 1);
        return strinfo(ST::string::from_latin_1(in.data()));
    }
    bad_route("str_from_latin_1", route);
}

// to_* members of a string holding exactly the given bytes (from_validated: no validation)
static std::string str_to(const std::string &fn, const std::string &route, bool sub, const std::string &u)
{
    Block<char> in = units<char>(u);
    const ST::string s = ST::string::from_validated(in.data(), in.size());
    if (fn == "str_to_utf8") {
        if (route == "to") return bufinfo(s.to_utf8());
        if (route == "tobuf") { ST::char_buffer r("zz", 2); s.to_buffer(r, true, sub); return bufinfo(r); }
        if (route == "std") return strinfo(s.to_std_string(true, sub));
        if (route == "stdref") { std::string r("zz"); s.to_std_string(r, true, sub); return strinfo(r); }
        if (route == "u8std") return strinfo(s.to_std_u8string());
    }
    if (fn == "str_to_utf16") {
        if (route == "to") return bufinfo(s.to_utf16());
        if (route == "tobuf") { ST::utf16_buffer r(u"zz", 2); s.to_buffer(r); return bufinfo(r); }
        if (route == "std") return strinfo(s.to_std_u16string());
        if (route == "stdref") { std::u16string r(u"zz"); s.to_std_string(r); return strinfo(r); }
    }
    if (fn == "str_to_utf32") {
        if (route == "to") return bufinfo(s.to_utf32());
        if (route == "tobuf") { ST::utf32_buffer r(U"zz", 2); s.to_buffer(r); return bufinfo(r); }
        if (route == "std") return strinfo(s.to_std_u32string());
        if (route == "stdref") { std::u32string r(U"zz"); s.to_std_string(r); return strinfo(r); }
    }
    if (fn == "str_to_wchar") {
        if (route == "to") return bufinfo(s.to_wchar());
        if (route == "tobuf") { ST::wchar_buffer r(L"zz", 2); s.to_buffer(r); return bufinfo(r); }
        if (route == "std") return strinfo(s.to_std_wstring());
        if (route == "stdref") { std::wstring r(L"zz"); s.to_std_string(r); return strinfo(r); }
    }
    if (fn == "str_to_latin_1") {
        if (route == "to") return bufinfo(s.to_latin_1(sub));
        if (route == "tobuf") { ST::char_buffer r("zz", 2); s.to_buffer(r, false, sub); return bufinfo(r); }
        if (route == "std") return strinfo(s.to_std_string(false, sub));
        if (route == "stdref") { std::string r("zz"); s.to_std_string(r, false, sub); return strinfo(r); }
    }
    bad_route(fn, route);
}

static std::string conv(const std::string &op, const Args &a)
{
    if (a.size() < 3) { fprintf(stderr, "h_utf: %s needs <mode> <sub> <units>\n", op.c_str()); exit(2); }
    size_t dot = op.find('.');
    const std::string fn = op.substr(0, dot);
    const std::string route = dot == std::string::npos ? "ptr" : op.substr(dot + 1);
    const Mode md = parse_mode(a[0]);
    const bool sub = a[1] != "0";
    const std::string &u = a[2];

    CONV(utf16_to_utf8, char16_t)
    CONV(utf32_to_utf8, char32_t)
    CONV(wchar_to_utf8, wchar_t)
    CONV_FROM_L1(latin_1_to_utf8)
    CONV(utf8_to_utf16, char)
    CONV_U8(utf8_to_utf16)
    CONV(utf32_to_utf16, char32_t)
    CONV(wchar_to_utf16, wchar_t)
    CONV_FROM_L1(latin_1_to_utf16)
    CONV(utf8_to_utf32, char)
    CONV_U8(utf8_to_utf32)
    CONV(utf16_to_utf32, char16_t)
    CONV(wchar_to_utf32, wchar_t)
    CONV_FROM_L1(latin_1_to_utf32)
    CONV(utf8_to_wchar, char)
    CONV_U8(utf8_to_wchar)
    CONV(utf16_to_wchar, char16_t)
    CONV(utf32_to_wchar, char32_t)
    CONV_FROM_L1(latin_1_to_wchar)
    CONV_L1(utf8_to_latin_1, char)
    if (fn == "utf8_to_latin_1" && route == "u8") {
        Block<char8_t> in = units<char8_t>(u);
        return bufinfo(md.dflt ? ST::utf8_to_latin_1(in.data(), in.size()) : ST::utf8_to_latin_1(in.data(), in.size(), md.m, sub));
    }
    CONV_L1(utf16_to_latin_1, char16_t)
    CONV_L1(utf32_to_latin_1, char32_t)
    CONV_L1(wchar_to_latin_1, wchar_t)

    if (fn == "str_from_utf8") return str_from_u8(route, md, u);
    if (fn == "str_from_utf16") return str_from<char16_t>(route, md, u);
    if (fn == "str_from_utf32") return str_from<char32_t>(route, md, u);
    if (fn == "str_from_wchar") return str_from<wchar_t>(route, md, u);
    if (fn == "str_from_latin_1") return str_from_latin_1(route, u);
    if (fn == "str_lit_utf8") {
        if (route == "lit") {
            Block<char> in = units<char>(u);
            return strinfo(ST::literals::operator"" _st(in.data(), in.size()));
        }
        if (route == "u8lit") {
            Block<char8_t> in = units<char8_t>(u);
            return strinfo(ST::literals::operator"" _st(in.data(), in.size()));
        }
        bad_route(fn, route);
    }
    if (fn.rfind("str_to_", 0) == 0) return str_to(fn, route, sub, u);
    bad_route(fn, route);
}

// one case as a result line (used by the digest mode; same text as run_main prints)
static std::string line_of(const std::string &op, const Args &a)
{
    try {
        return "OK " + conv(op, a);
    } catch (const ST::unicode_error &) {
        return "THROW unicode_error";
    } catch (const std::bad_alloc &) {
        return "THROW bad_alloc";
    } catch (const std::exception &e) {
        return std::string("THROW other:") + e.what();
    }
}

static inline void fnv_add(uint64_t &h, const std::string &s)
{
    for (unsigned char c : s) { h ^= c; h *= 0x100000001b3ULL; }
}

template <class T> static std::string hexunits(const std::vector<uint64_t> &v)
{
    std::vector<T> t(v.size());
    for (size_t i = 0; i < v.size(); ++i) t[i] = static_cast<T>(v[i]);
    return hex(t.data(), t.size());
}

enum SrcKind { K8, K16, K32, KL1 };
static SrcKind src_kind(const std::string &fn)
{
    if (fn.rfind("utf8_to_", 0) == 0 || fn == "str_from_utf8" || fn == "str_lit_utf8" || fn.rfind("str_to_", 0) == 0) return K8;
    if (fn.rfind("utf16_to_", 0) == 0 || fn == "str_from_utf16") return K16;
    if (fn.rfind("latin_1_to_", 0) == 0 || fn == "str_from_latin_1") return KL1;
    if (fn.rfind("wchar_to_", 0) == 0 || fn == "str_from_wchar") return sizeof(wchar_t) == 2 ? K16 : K32;
    return K32;
}

// generalised UTF-8 / UTF-16 of a value (test-side encoder: surrogates and values above 0x10FFFF included)
static bool item(const std::string &domain, SrcKind k, uint64_t i, std::vector<uint64_t> &out)
{
    out.clear();
    if (domain == "scalar" || domain == "cp") {
        if (domain == "scalar" && i >= 0xD800 && i <= 0xDFFF) return false;
        switch (k) {
        case K8:
            if (i >= 0x200000) return false;
            if (i < 0x80) out = {i};
            else if (i < 0x800) out = {0xC0 | (i >> 6), 0x80 | (i & 0x3F)};
            else if (i < 0x10000) out = {0xE0 | (i >> 12), 0x80 | ((i >> 6) & 0x3F), 0x80 | (i & 0x3F)};
            else out = {0xF0 | ((i >> 18) & 7), 0x80 | ((i >> 12) & 0x3F), 0x80 | ((i >> 6) & 0x3F), 0x80 | (i & 0x3F)};
            return true;
        case K16:
            if (i >= 0x110000) return false;
            if (i < 0x10000) out = {i};
            else out = {0xD800 | (((i - 0x10000) >> 10) & 0x3FF), 0xDC00 | ((i - 0x10000) & 0x3FF)};
            return true;
        case K32: out = {i}; return true;
        case KL1: if (i >= 0x100) return false; out = {i}; return true;
        }
    }
    if (domain == "bytes1") { out = {i & 0xFF}; return true; }
    if (domain == "bytes2") { out = {(i >> 8) & 0xFF, i & 0xFF}; return true; }
    if (domain == "bytes3") { out = {(i >> 16) & 0xFF, (i >> 8) & 0xFF, i & 0xFF}; return true; }
    if (domain == "bytes4") { out = {(i >> 24) & 0xFF, (i >> 16) & 0xFF, (i >> 8) & 0xFF, i & 0xFF}; return true; }
    if (domain == "cb4") {      // the 16 class-boundary bytes in all 4-tuples
        static const uint64_t CB[16] = {0x00, 0x7F, 0x80, 0xBF, 0xC0, 0xC1, 0xC2, 0xDF, 0xE0, 0xEF, 0xF0, 0xF4, 0xF5, 0xF7, 0xF8, 0xFF};
        out = {CB[(i >> 12) & 15], CB[(i >> 8) & 15], CB[(i >> 4) & 15], CB[i & 15]};
        return true;
    }
    if (domain == "u16x2") { out = {(i >> 16) & 0xFFFF, i & 0xFFFF}; return true; }
    if (domain == "u16x3") { out = {(i >> 32) & 0xFFFF, (i >> 16) & 0xFFFF, i & 0xFFFF}; return true; }
    fprintf(stderr, "h_utf: unknown domain %s\n", domain.c_str());
    exit(2);
}

static std::string enumerate(const Args &a)
{
    if (a.size() != 6) { fprintf(stderr, "h_utf: ENUM domain fn.route mode sub lo hi\n"); exit(2); }
    const std::string &domain = a[0], &op = a[1];
    const std::string fn = op.substr(0, op.find('.'));
    const SrcKind k = src_kind(fn);
    uint64_t lo = u64(a[4]), hi = u64(a[5]);
    uint64_t h = 0xcbf29ce484222325ULL, hs = 0xcbf29ce484222325ULL, n = 0;
    std::vector<uint64_t> us;
    Args ca = {a[2], a[3], ""};
    for (uint64_t i = lo; i < hi; ++i) {
        if (!item(domain, k, i, us)) continue;
        switch (k) {
        case K8: case KL1: ca[2] = hexunits<unsigned char>(us); break;
        case K16: ca[2] = hexunits<char16_t>(us); break;
        case K32: ca[2] = hexunits<char32_t>(us); break;
        }
        const std::string line = line_of(op, ca);
        fnv_add(h, line + "\n");
        // shape = the line without the units: what C03 constrains (outcome class, size, terminator)
        size_t sz = line.rfind(" size=");
        fnv_add(hs, (line.compare(0, 3, "OK ") == 0 && sz != std::string::npos ? "OK" + line.substr(sz) : line) + "\n");
        ++n;
    }
    char buf[96];
    snprintf(buf, sizeof buf, "n=%llu fnv=%016llx shape=%016llx", (unsigned long long)n, (unsigned long long)h,
             (unsigned long long)hs);
    return buf;
}

static std::string dispatch(const std::string &op, const Args &a)
{
    if (op == "ENUM") return enumerate(a);
    return conv(op, a);
}

// what the shutdown probe does with the library: every kind of conversion once, digest of the results
static std::string utf_probe()
{
    static const char t8[] = "h\xc3\xa9llo \xe2\x82\xac \xf0\x9f\x98\x80 end";
    std::ostringstream o;
    ST::utf16_buffer u16 = ST::utf8_to_utf16(t8, sizeof t8 - 1);
    ST::utf32_buffer u32 = ST::utf8_to_utf32(t8, sizeof t8 - 1);
    o << hex(u16) << "|" << hex(u32) << "|" << hex(ST::utf16_to_utf8(u16)) << "|" << hex(ST::utf32_to_utf8(u32))
      << "|" << hex(ST::utf16_to_utf32(u16)) << "|" << hex(ST::utf32_to_utf16(u32)) << "|" << hex(ST::utf8_to_wchar(t8, sizeof t8 - 1))
      << "|" << hex(ST::latin_1_to_utf8("caf\xe9", 4)) << "|" << hex(ST::utf8_to_latin_1(t8, 6)) << "|" << hex(ST::string::from_utf16(u16))
      << "|" << hex(ST::string::from_utf32(u32).to_utf16()) << "|" << hex(ST::string(t8).to_wchar());
    return o.str();
}

VH_STARTUP_PROBE(utf_probe)

int main(int argc, char **argv) { vh::g_probe = utf_probe; return run_main(argc, argv, dispatch); }
