// harness/h_num.cpp — C12 / C13: integer <-> text and the floating-point wrappers,
// through the public API only (ST::string::from_int/from_uint/to_*, ST::string_stream <<,
// ST::format, ST::format_type(format_spec, format_writer&, double|float), from_float/from_double,
// to_float/to_double).  UBSan is on: the negation of the most negative value is reported as
// "FAULT UBSignedNeg" by the driver.  Reference lines from the C library itself:
// strtol_ref (validates coq/Num/Strtol.v), render_ref (validates the model driver's `render`),
// and the ref=/end= fields of to_double/to_float (validate the embedded `scan` values).
#include "common.h"
#include <cinttypes>
#include <climits>
#include <cerrno>
using namespace vh;

static_assert(sizeof(short) == 2 && sizeof(int) == 4 && sizeof(long) == 8 && sizeof(long long) == 8,
              "coq/Num/IntText.v assumes LP64: short 16, int 32, long 64, long long 64");
static_assert(sizeof(double) == 8 && sizeof(float) == 4, "IEEE binary64 / binary32 expected");

static std::string text_payload(const ST::string &s)
{
    std::ostringstream o;
    o << hex(s) << " size=" << s.size() << " term=" << (s.c_str()[s.size()] == 0 ? 1 : 0);
    return o.str();
}

static ST::string text_arg(const std::string &tok)
{
    Block<char> in = units<char>(tok);
    return ST::string::from_validated(in.data(), in.size());
}

static double dbl_of(const std::string &tok)
{
    uint64_t b = u64(tok);
    double d;
    memcpy(&d, &b, 8);
    return d;
}
static float flt_of(const std::string &tok)
{
    uint32_t b = uint32_t(u64(tok));
    float f;
    memcpy(&f, &b, 4);
    return f;
}
static std::string hex64(double d)
{
    uint64_t b;
    memcpy(&b, &d, 8);
    char buf[32];
    snprintf(buf, sizeof(buf), "%016" PRIx64, b);
    return buf;
}
static std::string hex32(float f)
{
    uint32_t b;
    memcpy(&b, &f, 4);
    char buf[32];
    snprintf(buf, sizeof(buf), "%08" PRIx32, b);
    return buf;
}

// ---------------------------------------------------------------- C12
template <class F>
static std::string by_type(const std::string &ty, F f)
{
    if (ty == "schar") return f((signed char)0);
    if (ty == "uchar") return f((unsigned char)0);
    if (ty == "short") return f((short)0);
    if (ty == "int") return f((int)0);
    if (ty == "long") return f((long)0);
    if (ty == "llong") return f((long long)0);
    if (ty == "ushort") return f((unsigned short)0);
    if (ty == "uint") return f((unsigned int)0);
    if (ty == "ulong") return f((unsigned long)0);
    if (ty == "ullong") return f((unsigned long long)0);
    fprintf(stderr, "h_num: unknown type %s\n", ty.c_str());
    exit(2);
}

template <class T>
static T value_of(const std::string &tok)
{
    if (std::is_signed<T>::value) return static_cast<T>(i64(tok));
    return static_cast<T>(u64(tok));
}

struct FromInt {
    const Args &a;
    std::string operator()(signed char) const { exit(2); }
    std::string operator()(unsigned char) const { exit(2); }
    template <class T>
    std::string operator()(T) const
    {
        T v = value_of<T>(a[1]);
        int base = int(i64(a[2]));
        bool up = a[3] == "1";
        if constexpr (std::is_signed<T>::value)
            return text_payload(ST::string::from_int(v, base, up));
        else
            return text_payload(ST::string::from_uint(v, base, up));
    }
};

struct StreamInt {
    const Args &a;
    std::string operator()(signed char) const { exit(2); }     // deleted overloads
    std::string operator()(unsigned char) const { exit(2); }
    template <class T>
    std::string operator()(T) const
    {
        T v = value_of<T>(a[1]);
        ST::string_stream ss;
        ss << v;
        return text_payload(ss.to_string());
    }
};

struct FormatInt {
    const Args &a;
    template <class T>
    std::string operator()(T) const
    {
        T v = value_of<T>(a[1]);
        const std::string &c = a[2];
        const char *fmt = c == "x" ? "{x}" : c == "X" ? "{X}" : c == "o" ? "{o}" : c == "b" ? "{b}"
                        : c == "d" ? "{d}" : "{}";
        return text_payload(ST::format(fmt, v));
    }
};

static std::string to_int_typed(const std::string &ty, const ST::string &s, int base, bool with_plain)
{
    // ONE conversion_result object is reused by every call of the run (it holds whatever the previous call left in
    // it); a fresh one is used besides, and the two must agree: the flags may not depend on the object's history
    static ST::conversion_result r;
    { static const ST::string seven = ST_LITERAL("7"); (void)seven.to_long(r, 10); }   // r now says ok + full_match
    std::ostringstream o;
#define SIGNED_CASE(name, T, call)                                                      \
    if (ty == name) {                                                                   \
        T v = s.call(r, base);                                                          \
        { ST::conversion_result fresh; (void)s.call(fresh, base);                       \
          if (fresh.ok() != r.ok() || fresh.full_match() != r.full_match()) o << "reused-result-differs "; } \
        o << "v=" << (long long)v << " ok=" << (r.ok() ? 1 : 0) << " full=" << (r.full_match() ? 1 : 0); \
        if (with_plain) o << " plain=" << (long long)s.call(base);                      \
        return o.str();                                                                 \
    }
#define UNSIGNED_CASE(name, T, call)                                                    \
    if (ty == name) {                                                                   \
        T v = s.call(r, base);                                                          \
        { ST::conversion_result fresh; (void)s.call(fresh, base);                       \
          if (fresh.ok() != r.ok() || fresh.full_match() != r.full_match()) o << "reused-result-differs "; } \
        o << "v=" << (unsigned long long)v << " ok=" << (r.ok() ? 1 : 0) << " full=" << (r.full_match() ? 1 : 0); \
        if (with_plain) o << " plain=" << (unsigned long long)s.call(base);             \
        return o.str();                                                                 \
    }
    SIGNED_CASE("short", short, to_short)
    SIGNED_CASE("int", int, to_int)
    SIGNED_CASE("long", long, to_long)
    SIGNED_CASE("llong", long long, to_long_long)
    UNSIGNED_CASE("ushort", unsigned short, to_ushort)
    UNSIGNED_CASE("uint", unsigned int, to_uint)
    UNSIGNED_CASE("ulong", unsigned long, to_ulong)
    UNSIGNED_CASE("ullong", unsigned long long, to_ulong_long)
#undef SIGNED_CASE
#undef UNSIGNED_CASE
    if (ty == "bool") {
        bool v = s.to_bool(r);
        { ST::conversion_result fresh; (void)s.to_bool(fresh);
          if (fresh.ok() != r.ok() || fresh.full_match() != r.full_match()) o << "reused-result-differs "; }
        o << "v=" << (v ? 1 : 0) << " ok=" << (r.ok() ? 1 : 0) << " full=" << (r.full_match() ? 1 : 0);
        if (with_plain) o << " plain=" << (s.to_bool() ? 1 : 0);
        return o.str();
    }
    fprintf(stderr, "h_num: to_int type %s\n", ty.c_str());
    exit(2);
}

struct RoundTrip {
    const Args &a;
    std::string operator()(signed char) const { exit(2); }
    std::string operator()(unsigned char) const { exit(2); }
    template <class T>
    std::string operator()(T) const
    {
        T v = value_of<T>(a[2]);
        int base = int(i64(a[3]));
        bool up = a[4] == "1";
        ST::string s;
        if constexpr (std::is_signed<T>::value)
            s = ST::string::from_int(v, base, up);
        else
            s = ST::string::from_uint(v, base, up);
        return to_int_typed(a[1], s, base, false);
    }
};

static std::string strtol_ref(const Args &a)
{
    Block<char> in = units<char>(a[1], 1);       // NUL-terminated copy
    int base = int(i64(a[2]));
    char *end = nullptr;
    std::ostringstream o;
    errno = 0;
    if (a[0] == "l") o << "v=" << strtol(in.p, &end, base);
    else if (a[0] == "ll") o << "v=" << strtoll(in.p, &end, base);
    else if (a[0] == "ul") o << "v=" << strtoul(in.p, &end, base);
    else o << "v=" << strtoull(in.p, &end, base);
    o << " end=" << (end - in.p);
    return o.str();
}

// ---------------------------------------------------------------- C13
struct collect_writer : public ST::format_writer {
    std::string out;
    collect_writer() : ST::format_writer("") {}
    ST::format_writer &append(const char *data, size_t size) override
    {
        out.append(data, size);
        return *this;
    }
    ST::format_writer &append_char(char ch, size_t count = 1) override
    {
        out.append(count, ch);
        return *this;
    }
};

static std::string sized(const std::string &s)
{
    std::ostringstream o;
    o << hex(s) << " size=" << s.size();
    return o.str();
}

static ST::format_spec spec_of(const Args &a)
{
    ST::format_spec sp;
    sp.always_signed = a[0] == "1";
    sp.precision = int(i64(a[1]));
    sp.float_class = a[2] == "f" ? ST::float_fixed : a[2] == "e" ? ST::float_exp
                   : a[2] == "E" ? ST::float_exp_upper : ST::float_default;
    sp.minimum_length = int(i64(a[3]));
    sp.alignment = a[4] == "l" ? ST::align_left : a[4] == "r" ? ST::align_right : ST::align_default;
    sp.pad = char(u64(a[5]));
    return sp;
}

// the same field written as a format string, parsed by the library's own parser
static std::string format_string_of(const Args &a)
{
    std::string f = "{";
    if (a[4] == "l") f += "<";
    if (a[4] == "r") f += ">";
    if (u64(a[5]) != 0) { f += "_"; f += char(u64(a[5])); }
    if (a[0] == "1") f += "+";
    if (i64(a[3]) > 0) f += std::to_string(i64(a[3]));
    if (i64(a[1]) >= 0) { f += "."; f += std::to_string(i64(a[1])); }
    if (a[2] != "g") f += a[2];
    f += "}";
    return f;
}

static std::string dispatch(const std::string &op, const Args &a);

// digest mode: `enum <op> <type> <lo> <hi> <extra...>` runs  <op> <type> v <extra...>  for every v in
// [lo, hi] and prints the FNV-1a digest of the result lines; the model driver does the same.
static std::string enum_block(const Args &a)
{
    long long lo = i64(a[2]), hi = i64(a[3]);
    uint64_t h = 14695981039346656037ULL;
    Args b;
    b.push_back(a[1]);
    b.push_back("");
    for (size_t i = 4; i < a.size(); ++i) b.push_back(a[i]);
    for (long long v = lo; v <= hi; ++v) {
        b[1] = std::to_string(v);
        std::string r = "OK " + dispatch(a[0], b) + "\n";
        for (unsigned char c : r) { h ^= c; h *= 1099511628211ULL; }
    }
    char buf[64];
    snprintf(buf, sizeof(buf), "n=%lld fnv=%016" PRIx64, hi - lo + 1, h);
    return buf;
}

static std::string dispatch(const std::string &op, const Args &a)
{
    if (op == "enum") return enum_block(a);
    if (op == "from_int") return by_type(a[0], FromInt{a});
    if (op == "stream_int") return by_type(a[0], StreamInt{a});
    if (op == "format_int") return by_type(a[0], FormatInt{a});
    if (op == "to_int") return to_int_typed(a[0], text_arg(a[1]), int(i64(a[2])), true);
    if (op == "round_trip") return by_type(a[0], RoundTrip{a});
    if (op == "strtol_ref") return strtol_ref(a);

    if (op == "format_double" || op == "format_float") {
        ST::format_spec sp = spec_of(a);
        collect_writer w;
        if (op == "format_double") ST::format_type(sp, w, dbl_of(a[6]));
        else ST::format_type(sp, w, flt_of(a[6]));
        return sized(w.out);
    }
    if (op == "format_double_s") {
        std::string f = format_string_of(a);
        ST::string r = ST::format(f.c_str(), dbl_of(a[6]));
        return sized(std::string(r.c_str(), r.size()));
    }
    if (op == "from_double") return text_payload(ST::string::from_double(dbl_of(a[0]), char(i64(a[1]))));
    if (op == "from_float_d") return text_payload(ST::string::from_float(dbl_of(a[0]), char(i64(a[1]))));
    if (op == "from_float") return text_payload(ST::string::from_float(flt_of(a[0]), char(i64(a[1]))));
    if (op == "stream_double" || op == "stream_float") {
        ST::string_stream ss;
        size_t fill = a.size() > 1 ? size_t(u64(a[1])) : 0;
        ss.append_char('a', fill);
        if (op == "stream_double") ss << dbl_of(a[0]);
        else ss << flt_of(a[0]);
        // what was inserted: everything after the prefix (the prefix itself must be intact)
        std::string all(ss.raw_buffer(), ss.size());
        if (all.size() < fill || all.compare(0, fill, std::string(fill, 'a')) != 0) return "OK prefix-corrupted";
        return text_payload(ST::string::from_validated(all.data() + fill, all.size() - fill));
    }
    if (op == "to_double" || op == "to_float") {
        ST::string s = text_arg(a[0]);
        static ST::conversion_result r;       // reused across calls (see to_int_typed)
        { static const ST::string seven = ST_LITERAL("7"); (void)seven.to_long(r, 10); }
        Block<char> in = units<char>(a[0], 1);
        char *end = nullptr;
        std::ostringstream o;
        {
            ST::conversion_result fresh;
            if (op == "to_double") (void)s.to_double(fresh); else (void)s.to_float(fresh);
            ST::conversion_result again = r;
            if (op == "to_double") (void)s.to_double(again); else (void)s.to_float(again);
            if (fresh.ok() != again.ok() || fresh.full_match() != again.full_match()) o << "reused-result-differs ";
        }
        if (op == "to_double") {
            double v = s.to_double(r);
            double ref = strtod(in.p, &end);
            o << "v=" << hex64(v) << " ok=" << (r.ok() ? 1 : 0) << " full=" << (r.full_match() ? 1 : 0)
              << " plain=" << hex64(s.to_double()) << " ref=" << hex64(ref) << " end=" << (end - in.p);
        } else {
            float v = s.to_float(r);
            float ref = strtof(in.p, &end);
            o << "v=" << hex32(v) << " ok=" << (r.ok() ? 1 : 0) << " full=" << (r.full_match() ? 1 : 0)
              << " plain=" << hex32(s.to_float()) << " ref=" << hex32(ref) << " end=" << (end - in.p);
        }
        return o.str();
    }
    if (op == "render_ref") {
        Block<char> f = units<char>(a[0], 1);
        double v = dbl_of(a[1]);
        int n = snprintf(nullptr, 0, f.p, v);
        std::string out(size_t(n), '\0');
        snprintf(&out[0], size_t(n) + 1, f.p, v);
        return sized(out);
    }
    if (op == "float_buf") {
        std::ostringstream o;
        o << "sizeof=" << sizeof(ST::float_formatter<double>);
        return o.str();
    }
    fprintf(stderr, "h_num: unknown op %s\n", op.c_str());
    exit(2);
}

static std::string num_probe()
{
    std::ostringstream o;
    o << hex(ST::string::from_int(-123456789, 10)) << "|" << hex(ST::string::from_uint(0xdeadbeefu, 16, true)) << "|" << hex(ST::string::from_int(-32768, 2))
      << "|" << hex(ST::string::from_double(1.5e100, 'e')) << "|" << ST_LITERAL("-42").to_int() << "|" << ST_LITERAL("ff").to_uint(16)
      << "|" << ST_LITERAL("2.5").to_double() << "|" << ST_LITERAL("TRUE").to_bool();
    return o.str();
}

VH_STARTUP_PROBE(num_probe)

int main(int argc, char **argv) { vh::g_probe = num_probe; return run_main(argc, argv, dispatch); }
